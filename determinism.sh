#!/usr/bin/env bash
# Determinism proof: every run seed executed twice in separate processes, sequentially and
# under 16-way load and in different process groupings; the digests of the full event logs
# (scheduling decisions, datagram bytes, observations, findings) must be identical.
# usage: ./determinism.sh [runs per property, default 200]
set -u
root="$(cd "$(dirname "$0")" && pwd)"
cd "$root"
N="${1:-200}"
bin=$root/target/release/mdnssim
tmp=$(mktemp -d /tmp/verif-det.XXXXXX)
fail=0
for p in C13 C14 C15 C16 C20; do
  # A: one process, sequential
  $bin determinism $p $N 0 > $tmp/$p.a &
done
wait
for p in C13 C14 C15 C16 C20; do
  # B: 16 processes in parallel, each a slice (different grouping, machine under load)
  per=$(( (N + 15) / 16 ))
  for j in $(seq 0 15); do
    first=$(( j * per ))
    cnt=$per
    if [ $(( first + cnt )) -gt $N ]; then cnt=$(( N - first )); fi
    if [ $cnt -gt 0 ]; then $bin determinism $p $cnt $first > $tmp/$p.b.$j & fi
  done
  wait
  : > $tmp/$p.b
  for j in $(seq 0 15); do [ -f $tmp/$p.b.$j ] && cat $tmp/$p.b.$j >> $tmp/$p.b; done
  if ! diff -q $tmp/$p.a $tmp/$p.b > /dev/null; then
    echo "NONDETERMINISM in $p:"; diff $tmp/$p.a $tmp/$p.b | head -5; fail=1
  else
    echo "$p: $(wc -l < $tmp/$p.a) runs, event-log digests identical across processes/groupings/load"
  fi
done
rm -rf $tmp
exit $fail
