//! Executes a `Scenario` inside `simrt`: real services on simulated nodes, one application
//! thread per node, raw peers, a root thread that injects node faults and runs the probe phase.

use std::collections::{HashMap, HashSet};
use std::hash::{BuildHasher, Hash, Hasher};
use std::panic::{catch_unwind, AssertUnwindSafe};
use std::sync::{Arc, Mutex};
use std::time::Duration;

use dnsgen::bridge;
use refdns::{name_from_str, t, Labels, MsgSpec, RecKey, Q};
use serde::{Deserialize, Serialize};
use simple_dns::{Name, Packet, ResourceRecord};
use simple_mdns::async_discovery as adisc;
use simple_mdns::sync_discovery::{OneShotMdnsResolver, ServiceDiscovery, SimpleMdnsResponder};
use simrt::task::block_on;
use simple_mdns::verif::{DomainResourceFilter, ResourceRecordManager};
use simple_mdns::InstanceInformation;
use simrt::sim::{EvKind, NetConfig, RunResult, SimConfig};
use simrt::{ctl, net};

use crate::scenario::{AppOp, InstSpec, NodeKind, NodeSpec, RootStep, Scenario};

pub const PROBE_NODE_OFFSET: u32 = 100;
pub const SETTLE_MS: u64 = 4_000;
pub const PROBE_WINDOW_MS: u64 = 2_000;

#[derive(Clone, Debug, PartialEq, Eq, Serialize, Deserialize)]
pub struct InstObs {
    pub name: String,
    pub ips: Vec<String>,
    pub ports: Vec<u16>,
    pub attrs: Vec<(String, Option<String>)>,
}

impl InstObs {
    pub fn from_real(i: &InstanceInformation) -> InstObs {
        let mut ips: Vec<String> = i.ip_addresses.iter().map(|a| a.to_string()).collect();
        ips.sort();
        let mut ports: Vec<u16> = i.ports.iter().copied().collect();
        ports.sort();
        let mut attrs: Vec<(String, Option<String>)> = i.attributes.iter().map(|(k, v)| (k.clone(), v.clone())).collect();
        attrs.sort();
        InstObs { name: i.unescaped_instance_name(), ips, ports, attrs }
    }
}

#[derive(Clone, Debug, PartialEq, Eq, Serialize, Deserialize)]
pub struct StoreEntry {
    pub filter: String,
    pub key: RecKey,
    pub ttl: u32,
}

#[derive(Clone, Debug)]
pub enum ObsItem {
    Constructed { node: u32, inc: u32, ok: bool, err: String },
    Known { node: u32, inc: u32, mark_seq: u64, insts: Vec<InstObs>, c16: Vec<String> },
    Discovered { node: u32, inc: u32, seq: u64, inst: InstObs, c16: Vec<String> },
    Store { node: u32, inc: u32, mark_seq: u64, entries: Vec<StoreEntry>, c16: Vec<String> },
    ApiPanic { node: u32, op: String, msg: String },
    Resolver { node: u32, op: String, start_ns: u64, end_ns: u64, timeout_ms: u64, result: String, probe: bool },
    ProbeSent { node: u32, id: u16, seq: u64, what: String },
    ProbeReply { id: u16, seq: u64 },
    ProbeApi { node: u32, ok: bool, what: String },
    RawRecv { node: u32, dgrams: Vec<u32> },
    FaultsOff { seq: u64 },
    /// an application thread was still inside a repository call long after everything ended
    AppStuck { node: u32, scope: String },
}

pub type ObsLog = Arc<Mutex<Vec<ObsItem>>>;

fn push(obs: &ObsLog, item: ObsItem) {
    obs.lock().unwrap().push(item);
}

fn panic_text(p: Box<dyn std::any::Any + Send>) -> Option<String> {
    if p.is::<simrt::sim::SimAbort>() {
        return None;
    }
    Some(if let Some(s) = p.downcast_ref::<&str>() {
        s.to_string()
    } else if let Some(s) = p.downcast_ref::<String>() {
        s.clone()
    } else {
        "<panic>".into()
    })
}

/// Run a repository API call; a panic inside is recorded, a simulator abort is propagated.
fn api<R>(obs: &ObsLog, node: u32, op: &str, f: impl FnOnce() -> R) -> Option<R> {
    match ctl::scope(op, || catch_unwind(AssertUnwindSafe(f))) {
        Ok(v) => Some(v),
        Err(p) => match panic_text(p) {
            None => std::panic::resume_unwind(Box::new(simrt::sim::SimAbort)),
            Some(msg) => {
                ctl::clear_scopes();
                let loc = simrt::sim::take_last_panic().map(|x| x.1).unwrap_or_default();
                push(obs, ObsItem::ApiPanic { node, op: op.to_string(), msg: format!("{} @ {}", msg, loc) });
                None
            }
        },
    }
}

pub fn build_instance(i: &InstSpec, order_seed: u64) -> InstanceInformation {
    let mut inst = InstanceInformation::new(i.name.clone());
    let mut ips = i.ips.clone();
    let mut ports = i.ports.clone();
    let mut attrs = i.attrs.clone();
    if order_seed % 2 == 1 {
        ips.reverse();
        ports.reverse();
        attrs.reverse();
    }
    for ip in &ips {
        inst = inst.with_ip_address(ip.parse().unwrap());
    }
    for p in &ports {
        inst = inst.with_port(*p);
    }
    for (k, v) in &attrs {
        inst = inst.with_attribute(k.clone(), v.clone());
    }
    inst
}

struct Fnv(u64);
impl Hasher for Fnv {
    fn finish(&self) -> u64 {
        self.0
    }
    fn write(&mut self, bytes: &[u8]) {
        for b in bytes {
            self.0 ^= *b as u64;
            self.0 = self.0.wrapping_mul(0x0000_0100_0000_01B3);
        }
    }
}
#[derive(Clone, Default)]
struct FnvBuild;
impl BuildHasher for FnvBuild {
    type Hasher = Fnv;
    fn build_hasher(&self) -> Fnv {
        Fnv(0xcbf2_9ce4_8422_2325)
    }
}

fn h3<T: Hash>(v: &T, rs: &std::collections::hash_map::RandomState) -> [u64; 3] {
    let mut a = std::collections::hash_map::DefaultHasher::new();
    v.hash(&mut a);
    let mut b = FnvBuild.build_hasher();
    v.hash(&mut b);
    [a.finish(), b.finish(), rs.hash_one(v)]
}

/// C16(1): an equal value built by inserting the same members in another order must hash
/// equally under three hashers and be found in a set that contains the original.
pub fn c16_instance(a: &InstanceInformation) -> Vec<String> {
    let mut out = Vec::new();
    let mut ips: Vec<_> = a.ip_addresses.iter().copied().collect();
    ips.sort();
    ips.reverse();
    let mut ports: Vec<_> = a.ports.iter().copied().collect();
    ports.sort();
    ports.reverse();
    let mut attrs: Vec<_> = a.attributes.iter().map(|(k, v)| (k.clone(), v.clone())).collect();
    attrs.sort();
    attrs.reverse();
    for variant in 0..2 {
        let mut b = a.clone();
        b.ip_addresses = Default::default();
        b.ports = Default::default();
        b.attributes = Default::default();
        if variant == 1 {
            let n = 1.min(ips.len());
            ips.rotate_left(n);
            let n = 1.min(ports.len());
            ports.rotate_left(n);
        }
        for ip in &ips {
            b.ip_addresses.insert(*ip);
        }
        for p in &ports {
            b.ports.insert(*p);
        }
        for (k, v) in &attrs {
            b.attributes.insert(k.clone(), v.clone());
        }
        if *a != b {
            out.push("instance: a rebuilt copy with the same members is not equal".to_string());
            continue;
        }
        let rs = std::collections::hash_map::RandomState::new();
        if h3(a, &rs) != h3(&b, &rs) {
            out.push(format!(
                "instance-hash: equal InstanceInformation values hash differently ({} ips, {} ports)",
                a.ip_addresses.len(),
                a.ports.len()
            ));
        }
        let mut set: HashSet<InstanceInformation> = HashSet::new();
        set.insert(a.clone());
        if !set.contains(&b) {
            out.push("instance-set: HashSet::contains misses an equal InstanceInformation".to_string());
        }
    }
    // Near twins: values that differ from `a` in a way an implementation may or may not regard
    // as equal (the instance name escaped / unescaped, an attribute value `None` vs `Some("")`,
    // an IPv4-mapped address vs its IPv4 form). Nothing is demanded about their equality; but
    // IF one compares equal to `a`, it must hash like `a` and be found in a set holding `a`.
    let mut twins: Vec<InstanceInformation> = Vec::new();
    let with_name = |name: String| {
        let mut t = InstanceInformation::new(name);
        t.ip_addresses = a.ip_addresses.clone();
        t.ports = a.ports.clone();
        t.attributes = a.attributes.clone();
        t
    };
    twins.push(with_name(a.unescaped_instance_name()));
    twins.push(with_name(a.escaped_instance_name()));
    if let Some((k, v)) = attrs.first() {
        let mut t = a.clone();
        t.attributes.insert(k.clone(), match v {
            None => Some(String::new()),
            Some(x) if x.is_empty() => None,
            Some(_) => None,
        });
        twins.push(t);
    }
    if let Some(ip) = ips.first() {
        let other = match ip {
            std::net::IpAddr::V4(v4) => std::net::IpAddr::V6(v4.to_ipv6_mapped()),
            std::net::IpAddr::V6(v6) => v6.to_ipv4_mapped().map(std::net::IpAddr::V4).unwrap_or(*ip),
        };
        if other != *ip && !a.ip_addresses.contains(&other) {
            let mut t = a.clone();
            t.ip_addresses.remove(ip);
            t.ip_addresses.insert(other);
            twins.push(t);
        }
    }
    for t in &twins {
        if *a == *t {
            let rs = std::collections::hash_map::RandomState::new();
            if h3(a, &rs) != h3(t, &rs) {
                out.push("instance-hash: a near-twin InstanceInformation compares equal but hashes differently".to_string());
            }
            let mut set: HashSet<InstanceInformation> = HashSet::new();
            set.insert(a.clone());
            if !set.contains(t) {
                out.push("instance-set: HashSet::contains misses a near-twin InstanceInformation that compares equal".to_string());
            }
        }
    }
    out
}

pub fn record_key(r: &ResourceRecord) -> Option<(RecKey, u32, bool, Vec<u8>)> {
    let mut p = Packet::new_reply(0);
    p.answers.push(r.clone());
    let bytes = catch_unwind(AssertUnwindSafe(|| p.build_bytes_vec())).ok()?.ok()?;
    let m = refdns::decode(&bytes, true).ok()?;
    let rr = m.answers.first()?;
    Some((rr.key(), rr.ttl, rr.cache_flush(), bytes))
}

/// Dump a store under the three filters and cross-check stored (owned) records against the
/// borrowed parse of the datagrams this node received (C16(3)).
fn dump_manager(g: &ResourceRecordManager<'_>, entries: &mut Vec<StoreEntry>, c16: &mut Vec<String>, owned: &mut Vec<ResourceRecord<'static>>, auth: &mut Vec<ResourceRecord<'static>>) {
    let root = Name::new_with_labels(&[]);
    for (fname, filter) in [
        ("cached", DomainResourceFilter::cached()),
        ("auth", DomainResourceFilter::authoritative(true)),
        ("all", DomainResourceFilter::all()),
    ] {
        for group in g.get_domain_resources(&root, filter) {
            for rec in group {
                match record_key(rec) {
                    // stray OPT pseudo-records are not part of the store model (see model.rs)
                    Some((key, _, _, _)) if key.rtype == t::OPT => {}
                    Some((key, ttl, _cf, _)) => entries.push(StoreEntry { filter: fname.into(), key, ttl }),
                    None => c16.push(format!("store: a stored record of type {:?} cannot be serialised", rec.rdata.type_code())),
                }
                if fname == "cached" {
                    owned.push(rec.clone().into_owned());
                }
                if fname == "auth" {
                    auth.push(rec.clone().into_owned());
                }
            }
        }
    }
}

enum StoreRef<'a> {
    Sync(&'a simrt::sync::RwLock<ResourceRecordManager<'static>>),
    Async(&'a simrt::shim_tokio::sync::RwLock<ResourceRecordManager<'static>>),
}

fn dump_store(
    store: StoreRef<'_>,
    node: u32,
    recv_from_seq: &mut u64,
    seen: &mut Vec<u32>,
) -> (Vec<StoreEntry>, Vec<String>) {
    let mut entries = Vec::new();
    let mut c16 = Vec::new();
    let mut owned: Vec<ResourceRecord<'static>> = Vec::new();
    // the node's own (application-built) records: they meet their parsed form when the node
    // hears its own announcement or a peer's copy; only "== implies equal hashes" is asked of
    // such a pair (built and parsed values need not be equal: that is C02, not C16)
    let mut auth: Vec<ResourceRecord<'static>> = Vec::new();
    match store {
        StoreRef::Sync(l) => {
            let g = l.read().unwrap();
            dump_manager(&g, &mut entries, &mut c16, &mut owned, &mut auth);
        }
        StoreRef::Async(l) => {
            simrt::task::block_on(async {
                let g = l.read().await;
                dump_manager(&g, &mut entries, &mut c16, &mut owned, &mut auth);
            });
        }
    }
    // datagrams received on this node since the last dump
    for e in ctl::events_since(*recv_from_seq) {
        if e.node == node {
            if let EvKind::Recv { dgram, .. } = e.kind {
                seen.push(dgram);
            }
        }
        *recv_from_seq = e.seq + 1;
    }
    if seen.len() > 64 {
        let cut = seen.len() - 64;
        seen.drain(..cut);
    }
    let rs = std::collections::hash_map::RandomState::new();
    // index the stored copies once: (type, owner) -> [(record, key, bytes)]
    let mut by_name: HashMap<(u16, Labels), Vec<(&ResourceRecord<'static>, RecKey, Vec<u8>, u32)>> = HashMap::new();
    for s in &owned {
        if let Some((sk, sttl, _, sbytes)) = record_key(s) {
            by_name.entry((sk.rtype, sk.owner.clone())).or_default().push((s, sk, sbytes, sttl));
        }
    }
    let mut auth_by_name: HashMap<(u16, Labels), Vec<&ResourceRecord<'static>>> = HashMap::new();
    for a in &auth {
        if let Some((ak, _, _, _)) = record_key(a) {
            auth_by_name.entry((ak.rtype, ak.owner.clone())).or_default().push(a);
        }
    }
    let mut budget = 4000usize; // bound the in-run oracle work per dump
    for d in seen.iter().rev() {
        let Some(dg) = ctl::dgram(*d) else { continue };
        let Ok(Ok(p)) = catch_unwind(AssertUnwindSafe(|| Packet::parse(&dg.bytes[..]))) else { continue };
        for b in p.answers.iter().chain(p.additional_records.iter()) {
            if budget == 0 {
                break;
            }
            budget -= 1;
            let Some((bk, bttl, _, bbytes)) = record_key(b) else { continue };
            if let Some(autho) = auth_by_name.get(&(bk.rtype, bk.owner.clone())) {
                for a in autho {
                    if *b == **a && h3(b, &rs) != h3(*a, &rs) {
                        c16.push(format!("eq-hash: a received type {} record == the node's own registered record but hashes differently", bk.rtype));
                    }
                }
            }
            let Some(cands) = by_name.get(&(bk.rtype, bk.owner.clone())) else { continue };
            for (s, sk, sbytes, sttl) in cands {
                let eq = *b == **s;
                // a stray OPT pseudo-record keeps its EDNS version in the TTL field, which is
                // part of the value (`OPT::version`) but not of the key: same key and another
                // TTL are two different records there
                let same_value = *sk == bk && (bk.rtype != refdns::t::OPT || *sttl == bttl);
                if same_value && !eq {
                    c16.push(format!("owned-ne: stored owned copy of a type {} record is not == its borrowed original", bk.rtype));
                }
                if eq {
                    if h3(b, &rs) != h3(*s, &rs) {
                        c16.push(format!("owned-hash: equal borrowed/owned type {} records hash differently", bk.rtype));
                    }
                    // serialised form of equal records (TTL may legitimately differ)
                    if *sk != bk || sbytes.len() != bbytes.len() {
                        c16.push(format!("owned-bytes: equal borrowed/owned type {} records serialise differently", bk.rtype));
                    }
                }
            }
        }
    }
    (entries, c16)
}

enum Handle {
    Disc(ServiceDiscovery, Option<std::sync::mpsc::Receiver<InstanceInformation>>),
    Resp(SimpleMdnsResponder),
    Res(OneShotMdnsResolver),
    /// the receiver of the tokio on_discovery channel is owned by a drainer thread (a full
    /// bounded channel would make the listener wait while holding the store's write lock);
    /// the flag tells the drainer to drop it
    ADisc(adisc::ServiceDiscovery, Option<Arc<std::sync::atomic::AtomicBool>>),
    AResp(adisc::SimpleMdnsResponder),
    ARes(adisc::OneShotMdnsResolver),
    Raw(net::UdpSocket),
    Failed,
}

fn drain_channel(obs: &ObsLog, node: u32, inc: u32, h: &mut Handle) {
    let mut got = Vec::new();
    match h {
        Handle::Disc(_, Some(rx)) => {
            while let Ok(inst) = rx.try_recv() {
                got.push(inst);
            }
        }
        _ => {}
    }
    for inst in got {
        let c16 = c16_instance(&inst);
        push(obs, ObsItem::Discovered { node, inc, seq: ctl::seq(), inst: InstObs::from_real(&inst), c16 });
    }
}

pub fn probe_record(node: u32) -> refdns::Rec {
    refdns::Rec {
        owner: name_from_str(&format!("probe{}.verif.local", node)),
        rtype: t::A,
        class: 1,
        cache_flush: false,
        ttl: 7,
        fields: vec![refdns::F::U32(0x0A00_0000 | node)],
    }
}

fn ms(ms: u64) -> u64 {
    ms * 1_000_000
}

fn app_main(node: u32, inc: u32, spec: NodeSpec, from_ms: u64, sc: Arc<Scenario>, obs: ObsLog) {
    let start = spec.start_ms.max(from_ms);
    // which public constructors build the records this application registers
    bridge::STYLE.with(|s| s.set(if sc.seed % 2 == 0 { simrt::rng::mix(sc.seed, 0x57E) | 1 } else { 0 }));
    ctl::sleep_until_ns(ms(start));
    ctl::mark(format!("ctor:{}:{}", node, inc));
    let mut timeout_ms = 3000u64;
    let v4 = !sc.v6;
    let scope = if v4 { simple_mdns::NetworkScope::V4 } else { simple_mdns::NetworkScope::V6 };
    let handle = match &spec.kind {
        NodeKind::Discovery { service, instance, ttl, channel, asyncv: true } => {
            let (tx, rx) = simrt::shim_tokio::sync::mpsc::channel(4096);
            let inst = build_instance(instance, sc.seed ^ node as u64);
            let (svc, ttl, ch) = (service.clone(), *ttl, *channel);
            match api(&obs, node, "async ServiceDiscovery::new", move || {
                adisc::ServiceDiscovery::new_with_scope(inst, &svc, ttl, if ch { Some(tx) } else { None }, scope)
            }) {
                Some(Ok(d)) => {
                    push(&obs, ObsItem::Constructed { node, inc, ok: true, err: String::new() });
                    if *channel {
                        let closed = Arc::new(std::sync::atomic::AtomicBool::new(false));
                        let (c2, obs2) = (closed.clone(), obs.clone());
                        let mut rx = rx;
                        simrt::thread::spawn_named_on(Some(node), Some(format!("drain:{}", node)), move || {
                            block_on(async {
                                loop {
                                    match simrt::shim_tokio::time::timeout(Duration::from_secs(5), rx.recv()).await {
                                        Ok(Some(inst)) => {
                                            let c16 = c16_instance(&inst);
                                            push(&obs2, ObsItem::Discovered { node, inc, seq: ctl::seq(), inst: InstObs::from_real(&inst), c16 });
                                        }
                                        Ok(None) => break,
                                        Err(_) => {}
                                    }
                                    if c2.load(std::sync::atomic::Ordering::Relaxed) {
                                        break;
                                    }
                                }
                            })
                        });
                        Handle::ADisc(d, Some(closed))
                    } else {
                        Handle::ADisc(d, None)
                    }
                }
                Some(Err(e)) => {
                    push(&obs, ObsItem::Constructed { node, inc, ok: false, err: format!("{}", e) });
                    Handle::Failed
                }
                None => Handle::Failed,
            }
        }
        NodeKind::Responder { ttl, asyncv: true } => {
            let ttl = *ttl;
            match api(&obs, node, "async SimpleMdnsResponder::new", move || adisc::SimpleMdnsResponder::new_with_scope(ttl, scope)) {
                Some(r) => {
                    push(&obs, ObsItem::Constructed { node, inc, ok: true, err: String::new() });
                    Handle::AResp(r)
                }
                None => Handle::Failed,
            }
        }
        NodeKind::Resolver { asyncv: true } => match api(&obs, node, "async OneShotMdnsResolver::new", move || adisc::OneShotMdnsResolver::new_with_scope(scope)) {
            Some(Ok(r)) => Handle::ARes(r),
            _ => Handle::Failed,
        },
        NodeKind::Discovery { service, instance, ttl, channel, .. } => {
            let (tx, rx) = std::sync::mpsc::channel();
            let inst = build_instance(instance, sc.seed ^ node as u64);
            let (svc, ttl, ch) = (service.clone(), *ttl, *channel);
            match api(&obs, node, "ServiceDiscovery::new", move || {
                ServiceDiscovery::new_with_scope(inst, &svc, ttl, if ch { Some(tx) } else { None }, scope)
            }) {
                Some(Ok(d)) => {
                    push(&obs, ObsItem::Constructed { node, inc, ok: true, err: String::new() });
                    Handle::Disc(d, if *channel { Some(rx) } else { None })
                }
                Some(Err(e)) => {
                    push(&obs, ObsItem::Constructed { node, inc, ok: false, err: format!("{}", e) });
                    Handle::Failed
                }
                None => Handle::Failed,
            }
        }
        NodeKind::Responder { ttl, .. } => {
            let ttl = *ttl;
            match api(&obs, node, "SimpleMdnsResponder::new", move || SimpleMdnsResponder::new_with_scope(ttl, scope)) {
                Some(r) => {
                    push(&obs, ObsItem::Constructed { node, inc, ok: true, err: String::new() });
                    Handle::Resp(r)
                }
                None => Handle::Failed,
            }
        }
        NodeKind::Resolver { .. } => match api(&obs, node, "OneShotMdnsResolver::new", move || OneShotMdnsResolver::new_with_scope(scope)) {
            Some(Ok(r)) => Handle::Res(r),
            _ => Handle::Failed,
        },
        NodeKind::RawPeer { port, joined } => Handle::Raw(net::raw_socket(v4, *port, *joined).unwrap()),
    };
    // which simulated lock is this node's record store: the oracle follows that lock only (a
    // changed repository may well introduce further locks)
    match &handle {
        Handle::Disc(d, _) => { ctl::mark(format!("storelock:{}", d.verif_store().sim_id())); }
        Handle::Resp(r) => { ctl::mark(format!("storelock:{}", r.verif_store().sim_id())); }
        Handle::ADisc(d, _) => { ctl::mark(format!("storelock:{}", d.verif_store().sim_id())); }
        Handle::AResp(r) => { ctl::mark(format!("storelock:{}", r.verif_store().sim_id())); }
        _ => {}
    }
    let mut handle = handle;
    let mut recv_from_seq = 0u64;
    let mut seen: Vec<u32> = Vec::new();
    for (idx, (at, op)) in spec.script.iter().enumerate() {
        if *at < from_ms {
            continue;
        }
        ctl::sleep_until_ns(ms(*at));
        drain_channel(&obs, node, inc, &mut handle);
        let mark_seq = ctl::mark(format!("op:{}:{}:{}", node, inc, idx));
        match (&mut handle, op) {
            (Handle::Resp(r), AppOp::AddResource(rec)) => {
                let rr = bridge::record(rec);
                api(&obs, node, "add_resource", || r.add_resource(rr));
            }
            (Handle::Resp(r), AppOp::RemoveResource(rec)) => {
                let rr = bridge::record(rec);
                api(&obs, node, "remove_resource_record", || r.remove_resource_record(rr));
            }
            (Handle::Resp(r), AppOp::Clear) => {
                api(&obs, node, "clear", || r.clear());
            }
            (Handle::Resp(r), AppOp::DumpStore) => {
                let store = r.verif_store();
                if let Some((entries, c16)) = api(&obs, node, "dump_store", || dump_store(StoreRef::Sync(&store), node, &mut recv_from_seq, &mut seen)) {
                    push(&obs, ObsItem::Store { node, inc, mark_seq, entries, c16 });
                }
            }
            (Handle::Disc(d, _), AppOp::GetKnown) => {
                if let Some(known) = api(&obs, node, "get_known_services", || d.get_known_services()) {
                    let mut c16 = Vec::new();
                    for i in &known {
                        c16.extend(c16_instance(i));
                    }
                    let insts = known.iter().map(InstObs::from_real).collect();
                    push(&obs, ObsItem::Known { node, inc, mark_seq, insts, c16 });
                }
            }
            (Handle::Disc(_, rx), AppOp::DropChannel) => {
                *rx = None;
            }
            (Handle::ADisc(_, closed), AppOp::DropChannel) => {
                if let Some(c) = closed {
                    c.store(true, std::sync::atomic::Ordering::Relaxed);
                }
            }
            (Handle::Disc(d, _), AppOp::Announce(flush)) => {
                let f = *flush;
                api(&obs, node, "announce", || d.announce(f));
            }
            (Handle::Disc(d, _), AppOp::RemoveFromDiscovery) => {
                api(&obs, node, "remove_service_from_discovery", || d.remove_service_from_discovery());
            }
            (Handle::Disc(d, _), AppOp::DumpStore) => {
                let store = d.verif_store();
                if let Some((entries, c16)) = api(&obs, node, "dump_store", || dump_store(StoreRef::Sync(&store), node, &mut recv_from_seq, &mut seen)) {
                    push(&obs, ObsItem::Store { node, inc, mark_seq, entries, c16 });
                }
            }
            // ---- tokio variants: the same operations through block_on
            (Handle::AResp(r), AppOp::AddResource(rec)) => {
                let rr = bridge::record(rec);
                api(&obs, node, "add_resource", || block_on(r.add_resource(rr)));
            }
            (Handle::AResp(r), AppOp::RemoveResource(rec)) => {
                let rr = bridge::record(rec);
                api(&obs, node, "remove_resource_record", || block_on(r.remove_resource_record(rr)));
            }
            (Handle::AResp(r), AppOp::Clear) => {
                api(&obs, node, "clear", || block_on(r.clear()));
            }
            (Handle::AResp(r), AppOp::DumpStore) => {
                let store = r.verif_store();
                if let Some((entries, c16)) = api(&obs, node, "dump_store", || dump_store(StoreRef::Async(&store), node, &mut recv_from_seq, &mut seen)) {
                    push(&obs, ObsItem::Store { node, inc, mark_seq, entries, c16 });
                }
            }
            (Handle::ADisc(d, _), AppOp::GetKnown) => {
                if let Some(known) = api(&obs, node, "get_known_services", || block_on(d.get_known_services())) {
                    let mut c16 = Vec::new();
                    for i in &known {
                        c16.extend(c16_instance(i));
                    }
                    let insts = known.iter().map(InstObs::from_real).collect();
                    push(&obs, ObsItem::Known { node, inc, mark_seq, insts, c16 });
                }
            }
            (Handle::ADisc(d, _), AppOp::Announce(flush)) => {
                let f = *flush;
                api(&obs, node, "announce", || block_on(d.announce(f)));
            }
            (Handle::ADisc(d, _), AppOp::RemoveFromDiscovery) => {
                api(&obs, node, "remove_service_from_discovery", || block_on(d.remove_service_from_discovery()));
            }
            (Handle::ADisc(d, _), AppOp::DumpStore) => {
                let store = d.verif_store();
                if let Some((entries, c16)) = api(&obs, node, "dump_store", || dump_store(StoreRef::Async(&store), node, &mut recv_from_seq, &mut seen)) {
                    push(&obs, ObsItem::Store { node, inc, mark_seq, entries, c16 });
                }
            }
            (Handle::ARes(r), AppOp::SetTimeoutMs(t)) => {
                timeout_ms = *t;
                r.set_query_timeout(Duration::from_millis(*t));
            }
            (Handle::ARes(r), AppOp::QueryAddress(n)) | (Handle::ARes(r), AppOp::QueryAddressPort(n)) => {
                let start_ns = ctl::now_ns();
                let port = matches!(op, AppOp::QueryAddressPort(_));
                let res = api(&obs, node, "resolver_query", || {
                    block_on(async {
                        if port {
                            format!("{:?}", r.query_service_address_and_port(n).await.map_err(|e| e.to_string()))
                        } else {
                            format!("{:?}", r.query_service_address(n).await.map_err(|e| e.to_string()))
                        }
                    })
                });
                push(&obs, ObsItem::Resolver {
                    node,
                    op: format!("{:?}", op),
                    start_ns,
                    end_ns: ctl::now_ns(),
                    timeout_ms,
                    result: res.unwrap_or_else(|| "<panicked>".into()),
                    probe: false,
                });
            }
            (Handle::Res(r), AppOp::SetTimeoutMs(t)) => {
                timeout_ms = *t;
                r.set_query_timeout(Duration::from_millis(*t));
            }
            (Handle::Res(r), AppOp::QueryAddress(n)) | (Handle::Res(r), AppOp::QueryAddressPort(n)) => {
                let start_ns = ctl::now_ns();
                let port = matches!(op, AppOp::QueryAddressPort(_));
                let res = api(&obs, node, "resolver_query", || {
                    if port {
                        format!("{:?}", r.query_service_address_and_port(n).map_err(|e| e.to_string()))
                    } else {
                        format!("{:?}", r.query_service_address(n).map_err(|e| e.to_string()))
                    }
                });
                push(&obs, ObsItem::Resolver {
                    node,
                    op: format!("{:?}", op),
                    start_ns,
                    end_ns: ctl::now_ns(),
                    timeout_ms,
                    result: res.unwrap_or_else(|| "<panicked>".into()),
                    probe: false,
                });
            }
            (Handle::Raw(s), AppOp::SendMsg { msg, compress, unicast_to, .. }) => {
                let bytes = refdns::encode(msg, *compress);
                let dst = match unicast_to {
                    Some(n) => std::net::SocketAddr::new(net::node_ip(*n, v4), net::MDNS_PORT),
                    None => net::group_addr(v4),
                };
                let _ = s.send_to(&bytes, dst);
            }
            (Handle::Raw(s), AppOp::SendRaw { bytes, unicast_to }) => {
                let dst = match unicast_to {
                    Some(n) => std::net::SocketAddr::new(net::node_ip(*n, v4), net::MDNS_PORT),
                    None => net::group_addr(v4),
                };
                let _ = s.send_to(bytes, dst);
            }
            (Handle::Raw(s), AppOp::Drain) => {
                let mut buf = [0u8; 9000];
                let mut ids = Vec::new();
                while let Some((_, _, d)) = s.try_recv_from(&mut buf) {
                    ids.push(d);
                }
                push(&obs, ObsItem::RawRecv { node, dgrams: ids });
            }
            _ => {}
        }
        drain_channel(&obs, node, inc, &mut handle);
    }
    if !sc.probe {
        return;
    }
    // ---- probe phase (faults are off from duration_ms on)
    ctl::sleep_until_ns(ms(sc.duration_ms + SETTLE_MS - 500));
    ctl::mark(format!("probe-api:{}:{}", node, inc));
    match &mut handle {
        Handle::Resp(r) => {
            let rr = bridge::record(&probe_record(node));
            let ok = api(&obs, node, "probe:add_resource", || r.add_resource(rr)).is_some();
            push(&obs, ObsItem::ProbeApi { node, ok, what: "add_resource".into() });
        }
        Handle::Disc(d, _) => {
            let ok = api(&obs, node, "probe:get_known_services", || d.get_known_services()).is_some();
            push(&obs, ObsItem::ProbeApi { node, ok, what: "get_known_services".into() });
        }
        Handle::AResp(r) => {
            let rr = bridge::record(&probe_record(node));
            let ok = api(&obs, node, "probe:add_resource", || block_on(r.add_resource(rr))).is_some();
            push(&obs, ObsItem::ProbeApi { node, ok, what: "add_resource".into() });
        }
        Handle::ADisc(d, _) => {
            let ok = api(&obs, node, "probe:get_known_services", || block_on(d.get_known_services())).is_some();
            push(&obs, ObsItem::ProbeApi { node, ok, what: "get_known_services".into() });
        }
        Handle::ARes(r) => {
            r.set_query_timeout(Duration::from_millis(300));
            ctl::sleep_until_ns(ms(sc.duration_ms + SETTLE_MS + PROBE_WINDOW_MS + 500));
            let start_ns = ctl::now_ns();
            let res = api(&obs, node, "probe:resolver_query", || block_on(async { format!("{:?}", r.query_service_address("nobody.verif.local").await.map_err(|e| e.to_string())) }));
            push(&obs, ObsItem::Resolver {
                node,
                op: "probe".into(),
                start_ns,
                end_ns: ctl::now_ns(),
                timeout_ms: 300,
                result: res.unwrap_or_else(|| "<panicked>".into()),
                probe: true,
            });
        }
        Handle::Res(r) => {
            r.set_query_timeout(Duration::from_millis(300));
            ctl::sleep_until_ns(ms(sc.duration_ms + SETTLE_MS + PROBE_WINDOW_MS + 500));
            let start_ns = ctl::now_ns();
            let res = api(&obs, node, "probe:resolver_query", || format!("{:?}", r.query_service_address("nobody.verif.local").map_err(|e| e.to_string())));
            push(&obs, ObsItem::Resolver {
                node,
                op: "probe".into(),
                start_ns,
                end_ns: ctl::now_ns(),
                timeout_ms: 300,
                result: res.unwrap_or_else(|| "<panicked>".into()),
                probe: true,
            });
        }
        _ => {}
    }
    ctl::sleep_until_ns(ms(sc.duration_ms + SETTLE_MS + PROBE_WINDOW_MS + 2_500));
    drain_channel(&obs, node, inc, &mut handle);
    drop(handle);
}

fn net_config(sc: &Scenario) -> NetConfig {
    let k = &sc.knobs;
    NetConfig {
        base_latency_ns: k.base_latency_ns,
        jitter_ns: k.jitter_ns,
        drop_ppm: k.drop_ppm,
        dup_ppm: k.dup_ppm,
        corrupt_ppm: k.corrupt_ppm,
        corrupt_kinds: k.corrupt_kinds,
        delay_ppm: k.delay_ppm,
        delay_max_ns: k.delay_max_ns,
        rcvbuf_dgrams: k.rcvbuf,
        send_err_ppm: k.send_err_ppm,
        recv_intr_ppm: k.recv_intr_ppm,
        oversleep_max_ns: k.oversleep_max_ns,
        preempt_ppm: k.preempt_ppm,
        preempt_max_ns: k.preempt_max_ns,
    }
}

pub struct RunOutput {
    pub res: RunResult,
    pub obs: Vec<ObsItem>,
}

pub fn service_question(sc: &Scenario, node: u32) -> Option<Q> {
    match &sc.nodes[node as usize].kind {
        NodeKind::Discovery { service, .. } => Some(Q { name: name_from_str(service), qtype: t::PTR, qclass: 1, unicast: false }),
        NodeKind::Responder { .. } => Some(Q { name: probe_record(node).owner, qtype: t::A, qclass: 1, unicast: false }),
        _ => None,
    }
}

pub fn run(sc: &Scenario) -> RunOutput {
    let obs: ObsLog = Arc::new(Mutex::new(Vec::new()));
    let cfg = SimConfig {
        sched_seed: sc.knobs.sched_seed,
        hash_seed: sc.knobs.hash_seed,
        net_seed: sc.knobs.net_seed,
        max_steps: sc.max_steps,
        step_jitter_ns: sc.knobs.step_jitter_ns,
        spin_limit_ms: 10_000,
        sched_policy: sc.knobs.sched_policy,
        net: net_config(sc),
        scripted_payload: vec![],
    };
    let sc = Arc::new(sc.clone());
    let sc2 = sc.clone();
    let obs2 = obs.clone();
    let res = simrt::run(cfg, move || {
        let sc = sc2;
        let obs = obs2;
        let mut incs: HashMap<u32, u32> = HashMap::new();
        let mut handles = Vec::new();
        let mut alive: HashSet<u32> = HashSet::new();
        for (i, n) in sc.nodes.iter().enumerate() {
            let (node, spec, sc3, obs3) = (i as u32, n.clone(), sc.clone(), obs.clone());
            alive.insert(node);
            handles.push((node, simrt::thread::spawn_named_on(Some(node), Some(format!("app:{}", node)), move || {
                app_main(node, 0, spec, 0, sc3, obs3)
            })));
        }
        for (at, step) in sc.root.iter() {
            ctl::sleep_until_ns(ms(*at));
            match step {
                RootStep::Partition { nodes } => {
                    for n in nodes {
                        ctl::set_partition_group(*n, 1);
                    }
                }
                RootStep::Heal => ctl::heal_partitions(),
                RootStep::Crash { node } => {
                    if alive.remove(node) {
                        ctl::crash_node(*node);
                    }
                }
                RootStep::Restart { node } => {
                    if !alive.contains(node) && (*node as usize) < sc.nodes.len() {
                        ctl::revive_node(*node);
                        alive.insert(*node);
                        let inc = incs.entry(*node).or_insert(0);
                        *inc += 1;
                        let (node, inc, spec, sc3, obs3, from) = (*node, *inc, sc.nodes[*node as usize].clone(), sc.clone(), obs.clone(), ctl::now_ns() / 1_000_000 + 1);
                        handles.push((node, simrt::thread::spawn_named_on(Some(node), Some(format!("app:{}#{}", node, inc)), move || {
                            app_main(node, inc, spec, from, sc3, obs3)
                        })));
                    }
                }
                RootStep::ClockJump { node, ms } => ctl::clock_jump(*node, Duration::from_millis(*ms)),
                RootStep::Stall { node, ms } => ctl::stall_node(*node, Duration::from_millis(*ms)),
            }
        }
        // ---- faults stop here
        ctl::sleep_until_ns(ms(sc.duration_ms + 1));
        let mut clean = NetConfig::default();
        clean.base_latency_ns = 200_000;
        clean.jitter_ns = 100_000;
        ctl::set_net(clean);
        ctl::heal_partitions();
        push(&obs, ObsItem::FaultsOff { seq: ctl::seq() });
        if sc.probe {
            ctl::sleep_until_ns(ms(sc.duration_ms + SETTLE_MS));
            let probe_node = PROBE_NODE_OFFSET;
            let v4 = !sc.v6;
            let sock = ctl::on_node(probe_node, || net::raw_socket(v4, Some(net::MDNS_PORT), true).unwrap());
            let mut buf = [0u8; 9000];
            while sock.try_recv_from(&mut buf).is_some() {}
            let mut id = 60000u16;
            for node in 0..sc.nodes.len() as u32 {
                if !alive.contains(&node) {
                    continue;
                }
                if let Some(q) = service_question(&sc, node) {
                    id += 1;
                    let m = MsgSpec { id, flags: 0, questions: vec![q.clone()], ..Default::default() };
                    let bytes = refdns::encode(&m, false);
                    let _ = ctl::on_node(probe_node, || sock.send_to(&bytes, net::group_addr(v4)));
                    push(&obs, ObsItem::ProbeSent { node, id, seq: ctl::seq(), what: refdns::name_to_string(&q.name) });
                }
            }
            ctl::sleep_until_ns(ms(sc.duration_ms + SETTLE_MS + PROBE_WINDOW_MS));
            while let Some((n, _, _)) = sock.try_recv_from(&mut buf) {
                if let Ok(m) = refdns::decode(&buf[..n], false) {
                    if m.is_response() {
                        push(&obs, ObsItem::ProbeReply { id: m.id, seq: ctl::seq() });
                    }
                }
            }
        }
        // application threads finish by themselves shortly after the probe phase; one that is
        // still inside a repository call long after that will never return
        ctl::sleep_until_ns(ms(sc.duration_ms + SETTLE_MS + PROBE_WINDOW_MS + 2_500 + 12_000));
        for (node, h) in handles {
            let (scope, finished) = ctl::thread_scope(h.tid());
            if !finished {
                if let Some(scope) = scope {
                    push(&obs, ObsItem::AppStuck { node, scope });
                }
                continue;
            }
            let _ = h.join();
        }
    });
    let items = std::mem::take(&mut *obs.lock().unwrap());
    RunOutput { res, obs: items }
}

pub fn labels_of(s: &str) -> Labels {
    name_from_str(s)
}
