//! Oracles over the recorded history of one run. A reference model of every node's store is
//! advanced event by event along the trace (the lock trace linearises application mutations,
//! ingests and reads), and each observation is compared with what the model says at the
//! sequence point where the real code held the lock.

use std::collections::{BTreeMap, BTreeSet, HashMap, HashSet};

use refdns::{is_strict_subdomain, name_from_str, name_to_string, t, Labels, Msg, RecKey, RR};
use simrt::sim::{Ev, EvKind, ExitHow, Outcome, RecvErrKind};

use crate::runner::{probe_record, InstObs, ObsItem, RunOutput, StoreEntry, PROBE_NODE_OFFSET, PROBE_WINDOW_MS};
use crate::scenario::{instance_records, AppOp, NodeKind, Scenario};

#[derive(Clone, Debug, PartialEq, Eq)]
pub struct Finding {
    pub prop: &'static str,
    pub sig: String,
    pub detail: String,
}

#[derive(Clone, Debug, Default)]
pub struct OStats {
    pub windows: u64,
    pub queries_judged: u64,
    pub queries_skipped_inexact: u64,
    pub queries_skipped_pipeline: u64,
    pub replies_judged: u64,
    pub replies_expected_and_seen: u64,
    pub silent_expected_and_seen: u64,
    pub store_mutated_between_recv_and_lock: u64,
    pub writer_waited_for_reader: u64,
    pub replies_parse_checked: u64,
    pub other_sends_parse_checked: u64,
    pub ingests: u64,
    pub ingests_fuzzy: u64,
    pub ingested_records: u64,
    pub ingest_filtered_own: u64,
    pub ingest_filtered_foreign: u64,
    pub known_exact: u64,
    pub known_exact_nonempty: u64,
    pub known_safety_only: u64,
    pub known_with_expired_entries: u64,
    pub discovered_judged: u64,
    pub discovered_skipped: u64,
    pub dumps_judged: u64,
    pub dump_entries: u64,
    pub dumps_with_expired: u64,
    pub c16_instances: u64,
    pub c16_dump_checks: u64,
    pub probes_sent: u64,
    pub probes_answered: u64,
    pub probes_excluded: u64,
    pub api_probes: u64,
    pub resolver_probes: u64,
    pub resolver_calls: u64,
    pub resolver_answers: u64,
    pub resolver_deadlines_judged: u64,
    pub panics_seen: u64,
    pub refresh_queries: u64,
    pub truncated_accepted: u64,
    pub announcements_judged: u64,
    pub replies_in_several_datagrams: u64,
    pub tokio_windows: u64,
    pub tokio_replies_judged: u64,
    pub tokio_known_exact: u64,
    pub tokio_ingests: u64,
    pub ipv6_ingests: u64,
    pub ipv6_replies_judged: u64,
    pub cut_short: bool,
}

impl OStats {
    pub fn add(&mut self, o: &OStats) {
        macro_rules! acc { ($($f:ident),*) => { $( self.$f += o.$f; )* } }
        acc!(windows, queries_judged, queries_skipped_inexact, queries_skipped_pipeline, replies_judged, replies_expected_and_seen,
            silent_expected_and_seen, store_mutated_between_recv_and_lock, writer_waited_for_reader,
            replies_parse_checked, other_sends_parse_checked, ingests, ingests_fuzzy, ingested_records,
            ingest_filtered_own, ingest_filtered_foreign, known_exact, known_exact_nonempty, known_safety_only,
            known_with_expired_entries, discovered_judged, discovered_skipped, dumps_judged, dump_entries,
            dumps_with_expired, c16_instances, c16_dump_checks, probes_sent, probes_answered, probes_excluded,
            api_probes, resolver_probes, resolver_calls, resolver_answers, resolver_deadlines_judged, panics_seen, refresh_queries, truncated_accepted, announcements_judged, replies_in_several_datagrams, tokio_windows, tokio_replies_judged, tokio_known_exact, tokio_ingests, ipv6_ingests, ipv6_replies_judged);
    }
}

pub struct Analysis {
    pub findings: Vec<Finding>,
    pub stats: OStats,
    /// hash of the sequence of model states visited (evidence: distinct model states)
    pub model_states: HashSet<u64>,
    pub harness_error: Option<String>,
}

#[derive(Clone, Debug)]
struct CacheEnt {
    expires: u64,
    optional: bool,
    ttl: u32,
}

#[derive(Clone, Debug, Default)]
struct NodeModel {
    active: bool,
    is_discovery: bool,
    service: Labels,
    instance_full: Labels,
    channel: bool,
    /// key -> TTLs with which it was registered since it was last absent
    auth: BTreeMap<RecKey, Vec<u32>>,
    cache: BTreeMap<RecKey, CacheEnt>,
    version: u64,
    fuzzy_ingest: bool,
    removed: bool,
    injected_send_err: bool,
    inc: u32,
    expected_disc: Vec<Option<InstObs>>,
    disc_dontcare: bool,
}

#[derive(Clone, Debug)]
pub struct Expect {
    pub must: BTreeSet<RecKey>,
    pub may: BTreeSet<RecKey>,
    pub unicast: bool,
    pub id: u16,
    /// registered address records by owner (for the additional section)
    addr_by_owner: BTreeMap<Labels, BTreeSet<RecKey>>,
    ttls: BTreeMap<RecKey, Vec<u32>>,
    version: u64,
}

struct Window {
    recv_seq: u64,
    dgram: u32,
    query: Option<Msg>,
    exact: bool,
    expect: Option<Expect>,
    sends: Vec<(u64, u32, Option<i32>)>,
    version_at_recv: u64,
    locked: bool,
}

enum Pending {
    App(AppOp, u64),
    ProbeAdd,
    None,
}

fn fnv(h: &mut u64, b: &[u8]) {
    for x in b {
        *h ^= *x as u64;
        *h = h.wrapping_mul(0x0000_0100_0000_01B3);
    }
}

fn model_hash(m: &NodeModel, now: u64) -> u64 {
    let mut h = 0xcbf2_9ce4_8422_2325u64;
    for k in m.auth.keys() {
        fnv(&mut h, &k.rdata);
        fnv(&mut h, &k.rtype.to_be_bytes());
        for l in &k.owner {
            fnv(&mut h, l);
        }
    }
    fnv(&mut h, b"|");
    for (k, e) in &m.cache {
        if e.expires > now {
            fnv(&mut h, &k.rdata);
            fnv(&mut h, &k.rtype.to_be_bytes());
            for l in &k.owner {
                fnv(&mut h, l);
            }
        }
    }
    h
}

fn srv_target(rdata: &[u8]) -> Option<Labels> {
    if rdata.len() < 7 {
        return None;
    }
    refdns::decode_name(rdata, 6).ok().map(|x| x.0)
}

fn expect_for(model: &NodeModel, q: &Msg) -> Expect {
    let mut must = BTreeSet::new();
    let mut may = BTreeSet::new();
    let mut unicast = false;
    for qu in &q.questions {
        if qu.unicast {
            unicast = true;
        }
        for k in model.auth.keys() {
            let exact = k.owner == qu.name;
            let sub = is_strict_subdomain(&k.owner, &qu.name);
            if !(exact || sub) || !refdns::qclass_matches(qu.qclass, k.class) {
                continue;
            }
            match refdns::qtype_matches(qu.qtype, k.rtype) {
                Some(true) => {
                    if exact {
                        must.insert(k.clone());
                    } else {
                        may.insert(k.clone());
                    }
                }
                Some(false) => {}
                None => {
                    may.insert(k.clone());
                }
            }
        }
    }
    let mut addr_by_owner: BTreeMap<Labels, BTreeSet<RecKey>> = BTreeMap::new();
    for k in model.auth.keys() {
        if k.rtype == t::A || k.rtype == t::AAAA {
            addr_by_owner.entry(k.owner.clone()).or_default().insert(k.clone());
        }
    }
    Expect { must, may, unicast, id: q.id, addr_by_owner, ttls: model.auth.clone(), version: model.version }
}


/// Compare the content of one reply with the expectation taken from the model (C13 a-d).
pub fn judge_reply(who: &str, exp: &Expect, q: &Msg, rep: &Msg) -> Vec<Finding> {
    let mut out = Vec::new();
    let mut push = |prop: &'static str, sig: String, detail: String| out.push(Finding { prop, sig, detail });
    if rep.id != exp.id {
        push("C13", "wrong-id".into(), format!("{}: reply id {} for query id {}", who, rep.id, exp.id));
    }
    if !rep.is_response() {
        push("C13", "response-flag-missing".into(), format!("{}: reply to query {} lacks the QR bit", who, exp.id));
    }
    let mut have: BTreeSet<RecKey> = BTreeSet::new();
    let mut srv_targets: Vec<Labels> = Vec::new();
    let qtext = q.questions.iter().map(|x| format!("{} t{} c{}", name_to_string(&x.name), x.qtype, x.qclass)).collect::<Vec<_>>().join("; ");
    for a in &rep.answers {
        let k = a.key().norm();
        if !exp.must.contains(&k) && !exp.may.contains(&k) {
            let registered = exp.ttls.contains_key(&k);
            push("C13", if registered { "answer-not-matching".into() } else { "answer-not-registered".into() }, format!("{}: reply to query {} ({}) contains {} type {} class {} which {}", who, exp.id, qtext, name_to_string(&k.owner), k.rtype, k.class, if registered { "matches no question" } else { "is not a registered authoritative record" }));
        }
        // TTL and cache-flush bit of a reply record are deliberately not judged: neither C13 nor
        // C16 constrains them (`ResourceRecord`'s own equality ignores both), and an
        // implementation may set the flush bit or send a remaining TTL (RFC 6762 §10).
        if k.rtype == t::SRV {
            if let Some(tg) = srv_target(&k.rdata) {
                srv_targets.push(tg);
            }
        }
        have.insert(k);
    }
    for m in &exp.must {
        if !have.contains(m) {
            push("C13", "missing-answer".into(), format!("{}: reply to query {} ({}) lacks registered record {} type {} class {}", who, exp.id, qtext, name_to_string(&m.owner), m.rtype, m.class));
        }
    }
    for a in &rep.additional {
        let k = a.key().norm();
        let ok = (k.rtype == t::A || k.rtype == t::AAAA)
            && srv_targets.iter().any(|tg| *tg == k.owner)
            && exp.addr_by_owner.get(&k.owner).map(|s| s.contains(&k)).unwrap_or(false);
        if !ok {
            push("C13", "additional-not-allowed".into(), format!("{}: reply to query {} carries additional record {} type {} that is not a registered address of an included SRV target", who, exp.id, name_to_string(&k.owner), k.rtype));
        }
    }
    out
}

/// Expectation for a query against a plain set of registered authoritative records.
pub fn expect_from_auth(auth: &BTreeMap<RecKey, Vec<u32>>, q: &Msg) -> Expect {
    let m = NodeModel { auth: auth.clone(), ..Default::default() };
    expect_for(&m, q)
}

fn attrs_of_txt(rdata: &[u8]) -> Option<Vec<(String, Option<String>)>> {
    // mirror of the documented TXT attribute rule: split at the first '=', first key wins
    let mut out: Vec<(String, Option<String>)> = Vec::new();
    let mut pos = 0;
    while pos < rdata.len() {
        let l = rdata[pos] as usize;
        if pos + 1 + l > rdata.len() {
            return None;
        }
        let s = &rdata[pos + 1..pos + 1 + l];
        pos += 1 + l;
        if s.is_empty() {
            continue; // a zero-length string is the encoding of "no attributes"
        }
        let (k, v) = match s.iter().position(|c| *c == b'=') {
            Some(i) => (&s[..i], Some(&s[i + 1..])),
            None => (s, None),
        };
        let k = std::str::from_utf8(k).ok()?.to_string();
        if k.is_empty() {
            continue; // RFC 6763 6.4: strings beginning with '=' are ignored
        }
        let v = match v {
            Some(v) => Some(std::str::from_utf8(v).ok()?.to_string()),
            None => None,
        };
        if !out.iter().any(|(kk, _)| *kk == k) {
            out.push((k, v));
        }
    }
    Some(out)
}

/// Build the expected instance from a set of records of one owner. None = don't-care
/// (ambiguous by construction: several TXT records with overlapping keys, non-UTF-8, ...).
fn instance_from(service: &Labels, owner: &Labels, recs: &[&RecKey]) -> Option<InstObs> {
    let sub: Labels = owner[..owner.len() - service.len()].to_vec();
    let mut name = String::new();
    for (i, l) in sub.iter().enumerate() {
        if i > 0 {
            name.push('.');
        }
        name.push_str(std::str::from_utf8(l).ok()?);
    }
    if name.contains('\\') {
        return None;
    }
    let mut ips = BTreeSet::new();
    let mut ports = BTreeSet::new();
    let mut attrs: Vec<(String, Option<String>)> = Vec::new();
    let mut txts = 0;
    for k in recs {
        match k.rtype {
            t::A if k.rdata.len() == 4 => {
                ips.insert(std::net::IpAddr::from([k.rdata[0], k.rdata[1], k.rdata[2], k.rdata[3]]).to_string());
            }
            t::AAAA if k.rdata.len() == 16 => {
                let mut a = [0u8; 16];
                a.copy_from_slice(&k.rdata);
                ips.insert(std::net::IpAddr::from(a).to_string());
            }
            t::SRV if k.rdata.len() >= 7 => {
                ports.insert(u16::from_be_bytes([k.rdata[4], k.rdata[5]]));
            }
            t::TXT => {
                txts += 1;
                let a = attrs_of_txt(&k.rdata)?;
                for (kk, v) in a {
                    if attrs.iter().any(|(x, _)| *x == kk) {
                        return None; // same key in two TXT records: order-dependent, don't-care
                    }
                    attrs.push((kk, v));
                }
            }
            t::A | t::AAAA | t::SRV => return None, // malformed lengths: typed parse would differ
            _ => {}
        }
    }
    let _ = txts;
    attrs.sort();
    let mut ips: Vec<String> = ips.into_iter().collect();
    ips.sort();
    Some(InstObs { name, ips, ports: ports.into_iter().collect(), attrs })
}

fn rr_class_valid(rr: &RR) -> bool {
    matches!(rr.class(), 1 | 2 | 3 | 4 | 254)
}

pub fn analyse(sc: &Scenario, out: &RunOutput) -> Analysis {
    let res = &out.res;
    let mut findings: Vec<Finding> = Vec::new();
    let mut st = OStats::default();
    let mut model_states: HashSet<u64> = HashSet::new();
    let mut push = |prop: &'static str, sig: String, detail: String| findings.push(Finding { prop, sig, detail });

    let harness_error = match res.outcome {
        Outcome::Completed => None,
        Outcome::RootPanicked => Some(format!("root driver panicked: {:?}", res.root_panic)),
        Outcome::Deadlock => {
            st.cut_short = true;
            None
        }
        Outcome::StepLimit => {
            st.cut_short = true;
            None
        }
        Outcome::Spin => {
            st.cut_short = true;
            None
        }
    };

    if res.outcome == Outcome::Deadlock {
        push("C14", "deadlock".into(), "every simulated thread (services and application) is blocked for ever: no timer, datagram or lock release can wake any of them".to_string());
    }
    if let (Outcome::Spin, Some(tid)) = (res.outcome, res.spin_tid) {
        // which datagram was the thread handling?
        let last = res.trace.iter().rev().find(|e| e.tid == tid && matches!(e.kind, EvKind::Recv { .. }));
        let what = match last {
            Some(Ev { kind: EvKind::Recv { dgram, .. }, .. }) => {
                let b = &res.dgrams[*dgram as usize].bytes;
                format!("after dequeuing a {}-byte datagram {:02x?}", b.len(), &b[..b.len().min(48)])
            }
            _ => "(no datagram dequeued by that thread)".to_string(),
        };
        let name = &res.thread_names[tid as usize];
        let kind = if name.contains('/') { "service" } else { "application" };
        push("C14", format!("spin:{}-thread", kind), format!("thread {} (node {}) reached no scheduling point for {} ms of real time {}: the handling does not terminate", name, res.thread_nodes[tid as usize] as i64, 10_000, what));
    }

    let n_nodes = sc.nodes.len();
    let mut models: Vec<NodeModel> = vec![NodeModel::default(); n_nodes];
    let is_service_thread = |tid: u32| -> bool {
        let n = &res.thread_names[tid as usize];
        n.contains('/')
    };
    let node_of = |tid: u32| -> u32 { res.thread_nodes[tid as usize] };

    // observations by mark sequence number
    let mut known_obs: HashMap<u64, (u32, &Vec<InstObs>)> = HashMap::new();
    let mut store_obs: HashMap<u64, (u32, &Vec<StoreEntry>)> = HashMap::new();
    let mut disc_obs: HashMap<(u32, u32), Vec<&InstObs>> = HashMap::new();
    let mut ctor_failed: HashSet<(u32, u32)> = HashSet::new();
    let mut probe_targets: HashMap<u16, u32> = HashMap::new();
    let mut api_probe_ok: HashMap<u32, bool> = HashMap::new();
    let mut faults_off_seq = u64::MAX;
    for o in &out.obs {
        match o {
            ObsItem::Known { node, mark_seq, insts, c16, .. } => {
                known_obs.insert(*mark_seq, (*node, insts));
                st.c16_instances += insts.len() as u64;
                for c in c16 {
                    push("C16", c.split(':').next().unwrap_or("c16").to_string(), format!("node {}: {}", node, c));
                }
            }
            ObsItem::Discovered { node, inc, inst, c16, .. } => {
                disc_obs.entry((*node, *inc)).or_default().push(inst);
                st.c16_instances += 1;
                for c in c16 {
                    push("C16", c.split(':').next().unwrap_or("c16").to_string(), format!("node {} (on_discovery): {}", node, c));
                }
            }
            ObsItem::Store { node, mark_seq, entries, c16, .. } => {
                store_obs.insert(*mark_seq, (*node, entries));
                st.c16_dump_checks += 1;
                for c in c16 {
                    push("C16", c.split(':').next().unwrap_or("c16").to_string(), format!("node {}: {}", node, c));
                }
            }
            ObsItem::Constructed { node, inc, ok, err } => {
                if !*ok {
                    ctor_failed.insert((*node, *inc));
                    // valid instance names and service names must construct
                    push("C15", "constructor-failed".into(), format!("node {}: ServiceDiscovery::new failed: {}", node, err));
                }
            }
            ObsItem::ApiPanic { node, op, msg } => {
                st.panics_seen += 1;
                let loc = msg.rsplit(" @ ").next().unwrap_or("");
                let short = if msg.contains("PoisonError") { "poisoned-lock".to_string() } else { loc.to_string() };
                push("C14", format!("api-panic:{}:{}", op.trim_start_matches("probe:"), short), format!("node {}: application call {} panicked: {}", node, op, msg));
            }
            ObsItem::ProbeSent { node, id, .. } => {
                probe_targets.insert(*id, *node);
            }
            ObsItem::ProbeApi { node, ok, .. } => {
                st.api_probes += 1;
                api_probe_ok.insert(*node, *ok);
            }
            ObsItem::Resolver { node, start_ns, end_ns, timeout_ms, probe, result, .. } => {
                if !*probe {
                    st.resolver_calls += 1;
                    if result.contains("Ok(Some") {
                        st.resolver_answers += 1;
                    }
                    // Bounded liveness of a one-shot query: once the time-out counted from the
                    // call's last own transmission has passed, the call may still be busy with
                    // datagrams that keep arriving, but it must not sit idle. `idle` = no
                    // datagram dequeued and nothing sent by the calling thread for QUIET ms.
                    // Judged only where nothing else delays a thread (no stall, pre-emption,
                    // oversleep or clock jump in the run).
                    const QUIET_MS: u64 = 600;
                    let undisturbed = sc.knobs.preempt_ppm == 0
                        && sc.knobs.oversleep_max_ns == 0
                        && !sc.root.iter().any(|(_, st)| matches!(st, crate::scenario::RootStep::Stall { .. } | crate::scenario::RootStep::ClockJump { .. } | crate::scenario::RootStep::Crash { .. }));
                    if undisturbed && !result.contains("<panicked>") {
                        let app = format!("app:{}", node);
                        let mut last_send = *start_ns;
                        let mut acts: Vec<u64> = Vec::new();
                        for e in &res.trace {
                            if e.t < *start_ns || e.t > *end_ns || res.thread_names[e.tid as usize] != app {
                                continue;
                            }
                            match e.kind {
                                EvKind::Send { .. } => {
                                    last_send = e.t;
                                    acts.push(e.t);
                                }
                                EvKind::Recv { .. } => acts.push(e.t),
                                _ => {}
                            }
                        }
                        let due = last_send + *timeout_ms * 1_000_000;
                        let mut prev = due;
                        let mut worst = 0u64;
                        for t in acts.iter().copied().filter(|t| *t > due).chain(std::iter::once(*end_ns)) {
                            if t > prev {
                                worst = worst.max(t - prev);
                                prev = t;
                            }
                        }
                        st.resolver_deadlines_judged += 1;
                        if *end_ns > due && worst > QUIET_MS * 1_000_000 {
                            push("C14", "resolver-query-outlives-deadline".into(), format!("node {}: one-shot query ({} ms time-out, last own transmission at t={} ms) returned at t={} ms although, after the time-out, its thread went {} ms without receiving or sending anything ({})", node, timeout_ms, last_send / 1_000_000, end_ns / 1_000_000, worst / 1_000_000, result));
                        }
                    }
                }
                if *probe {
                    st.resolver_probes += 1;
                    if end_ns.saturating_sub(*start_ns) > (*timeout_ms + 1000) * 1_000_000 {
                        push("C14", "resolver-did-not-return-in-time".into(), format!("node {}: one-shot query took {} ms with a {} ms time-out after faults stopped ({})", node, (end_ns - start_ns) / 1_000_000, timeout_ms, result));
                    }
                }
            }
            ObsItem::FaultsOff { seq } => faults_off_seq = *seq,
            ObsItem::AppStuck { node, scope } => {
                push("C14", format!("api-call-never-returns:{}", scope.trim_start_matches("probe:")), format!("node {}: the application's call {} had not returned 12 simulated seconds after everything else ended (the store is not usable)", node, scope));
            }
            _ => {}
        }
    }

    // panics of service threads
    for p in &res.panics {
        st.panics_seen += 1;
        if p.thread_name.contains('/') {
            push("C14", format!("panic:{}", p.location), format!("service thread {} (node {}) panicked: {} at {}", p.thread_name, p.node, p.message, p.location));
        } else if p.scope.is_some() {
            push("C14", format!("panic:{}", p.location), format!("application thread {} panicked inside {:?}: {} at {}", p.thread_name, p.scope, p.message, p.location));
        } else {
            return Analysis { findings, stats: st, model_states, harness_error: Some(format!("harness thread {} panicked: {} at {}", p.thread_name, p.message, p.location)) };
        }
    }

    // ---- walk the trace
    let mut findings_extra: Vec<Finding> = Vec::new();
    let mut announced: HashMap<(u32, u32), BTreeSet<RecKey>> = HashMap::new();
    // incarnations one of whose announcement sends met an injected syscall error: the rest of
    // that announcement may legitimately never be sent, so completeness is not judged for them
    let mut announce_send_failed: HashSet<(u32, u32)> = HashSet::new();
    let mut last_announce_t: HashMap<(u32, u32), u64> = HashMap::new();
    let mut pending: HashMap<u32, Pending> = HashMap::new();
    let mut windows: HashMap<u32, Window> = HashMap::new();
    let mut dgram_exact: HashMap<u32, bool> = HashMap::new();
    let mut last_op_exact: HashMap<u32, bool> = HashMap::new();
    let mut expect_known: HashMap<u64, (u32, Option<Vec<InstObs>>, Vec<InstObs>, bool, Vec<String>)> = HashMap::new();
    let mut expect_store: HashMap<u64, (u32, BTreeSet<RecKey>, BTreeSet<RecKey>, BTreeSet<RecKey>, bool)> = HashMap::new();
    let mut lock_wait: HashMap<u32, bool> = HashMap::new();
    let mut probe_dgram: HashMap<u32, u16> = HashMap::new();
    let mut probe_send_t: HashMap<u16, u64> = HashMap::new();
    let mut probe_answered: HashSet<u16> = HashSet::new();
    let mut thread_exit: HashMap<u32, ExitHow> = HashMap::new();
    let mut crashed: HashSet<u32> = HashSet::new();
    let mut stepped_past_end = false;

    let parent_of = |d: u32| -> u32 { res.dgrams[d as usize].parent.unwrap_or(d) };

    // Responders restructured into a pipeline (one task receives, another builds and sends the
    // reply): the per-thread handler windows below cannot attribute such replies, so for these
    // nodes the reply judgement is skipped (counted) instead of reporting "no reply". Evidence:
    // on a responder node a service thread other than the one that dequeued a query sends a
    // response carrying that query's id shortly afterwards. The unchanged responders have a
    // single service thread, so nothing is skipped there.
    let mut pipeline_nodes: HashSet<u32> = HashSet::new();
    {
        let mut last_query: HashMap<(u32, u16), (u32, u64)> = HashMap::new();
        for e in &res.trace {
            let n = e.node as usize;
            if n >= sc.nodes.len() || !matches!(sc.nodes[n].kind, NodeKind::Responder { .. }) || !res.thread_names[e.tid as usize].contains('/') {
                continue;
            }
            match &e.kind {
                EvKind::Recv { dgram, .. } => {
                    let b = &res.dgrams[*dgram as usize].bytes;
                    if b.len() >= 12 && b[2] & 0x80 == 0 {
                        last_query.insert((e.node, u16::from_be_bytes([b[0], b[1]])), (e.tid, e.t));
                    }
                }
                EvKind::Send { dgram, .. } => {
                    let b = &res.dgrams[*dgram as usize].bytes;
                    if b.len() >= 12 && b[2] & 0x80 != 0 {
                        if let Some((rtid, t0)) = last_query.get(&(e.node, u16::from_be_bytes([b[0], b[1]]))) {
                            if *rtid != e.tid && e.t.saturating_sub(*t0) < 10_000_000_000 {
                                pipeline_nodes.insert(e.node);
                            }
                        }
                    }
                }
                _ => {}
            }
        }
    }
    macro_rules! close_window {
        ($tid:expr, $w:expr, $truncated:expr) => {{
            let w: Window = $w;
            let node = node_of($tid);
            st.windows += 1;
            let is_tokio = is_tokio_node(sc, node);
            if is_tokio {
                st.tokio_windows += 1;
            }
            if let Some(q) = &w.query {
                if pipeline_nodes.contains(&node) {
                    st.queries_skipped_pipeline += 1;
                } else if !w.exact {
                    st.queries_skipped_inexact += 1;
                } else if let Some(exp) = &w.expect {
                    st.queries_judged += 1;
                    if exp.version != w.version_at_recv {
                        st.store_mutated_between_recv_and_lock += 1;
                    }
                    let ok_sends: Vec<&(u64, u32, Option<i32>)> = w.sends.iter().collect();
                    let nothing = exp.must.is_empty() && exp.may.is_empty();
                    if ok_sends.is_empty() {
                        if !exp.must.is_empty() && !$truncated {
                            push("C13", "no-reply".into(), format!("node {}: query id {} for {} has {} matching registered record(s) but no reply was sent", node, q.id, q.questions.iter().map(|x| name_to_string(&x.name)).collect::<Vec<_>>().join(","), exp.must.len()));
                        } else if nothing {
                            st.silent_expected_and_seen += 1;
                        }
                    }
                    if ok_sends.len() > 1 {
                        // a reply may be split over several datagrams: their union is the reply
                        st.replies_in_several_datagrams += 1;
                    }
                    let mut union_rep: Option<Msg> = None;
                    for (_, d, _) in ok_sends {
                        st.replies_judged += 1;
                        if is_tokio {
                            st.tokio_replies_judged += 1;
                        }
                        if sc.v6 {
                            st.ipv6_replies_judged += 1;
                        }
                        let dg = &res.dgrams[*d as usize];
                        if nothing {
                            push("C13", "reply-when-nothing-matches".into(), format!("node {}: a reply was sent for query id {} although no registered record matches", node, q.id));
                            continue;
                        }
                        let Ok(rep) = refdns::decode(&dg.bytes, true) else { continue };
                        let qsrc = res.dgrams[w.dgram as usize].src;
                        let want_dst = if exp.unicast { qsrc } else { simrt::net::group_addr(!sc.v6) };
                        if dg.dst != want_dst {
                            push("C13", if exp.unicast { "unicast-not-honoured".into() } else { "unicast-not-requested".into() }, format!("node {}: reply to query {} sent to {} but {} expected (unicast requested: {})", node, exp.id, dg.dst, want_dst, exp.unicast));
                        }
                        if rep.id != exp.id {
                            push("C13", "wrong-id".into(), format!("node {}: reply id {} for query id {}", node, rep.id, exp.id));
                        }
                        if !rep.is_response() {
                            push("C13", "response-flag-missing".into(), format!("node {}: reply to query {} lacks the QR bit", node, exp.id));
                        }
                        match &mut union_rep {
                            None => union_rep = Some(rep),
                            Some(u) => {
                                u.answers.extend(rep.answers);
                                u.additional.extend(rep.additional);
                            }
                        }
                        st.replies_expected_and_seen += 1;
                    }
                    if let Some(u) = &union_rep {
                        let mut u2 = u.clone();
                        u2.id = exp.id;
                        u2.flags |= 0x8000;
                        for f in judge_reply(&format!("node {}", node), exp, q, &u2) {
                            push(f.prop, f.sig, f.detail);
                        }
                    }
                }
            }
        }};
    }

    // the simulated locks that guard a record store (marked by the runner after construction);
    // a changed repository may use further locks, which say nothing about the store
    let store_locks: HashSet<u32> = res.marks.iter().filter_map(|m| m.strip_prefix("storelock:").and_then(|x| x.parse().ok())).collect();
    let is_store_lock = |l: u32| store_locks.is_empty() || store_locks.contains(&l);
    for (ev_idx, ev) in res.trace.iter().enumerate() {
        let Ev { seq, lt, tid, node, kind, t: tglob } = ev;
        let (seq, lt, tid, node, tglob) = (*seq, *lt, *tid, *node, *tglob);
        match kind {
            EvKind::Mark { id } => {
                let text = &res.marks[*id as usize];
                let parts: Vec<&str> = text.split(':').collect();
                match parts[0] {
                    "ctor" => {
                        let n: usize = parts[1].parse().unwrap();
                        let inc: u32 = parts[2].parse().unwrap();
                        let m = &mut models[n];
                        *m = NodeModel::default();
                        m.inc = inc;
                        m.active = true;
                        crashed.remove(&(n as u32));
                        if let NodeKind::Discovery { service, instance, ttl, channel, .. } = &sc.nodes[n].kind {
                            m.is_discovery = true;
                            m.service = name_from_str(service);
                            m.channel = *channel;
                            let mut full = vec![instance.name.as_bytes().to_vec()];
                            full.extend(m.service.iter().cloned());
                            m.instance_full = full.clone();
                            let ptr = refdns::Rec { owner: m.service.clone(), rtype: t::PTR, class: 1, cache_flush: false, ttl: *ttl, fields: vec![refdns::F::Name(full, refdns::Comp::Must)] };
                            m.auth.insert(ptr.key().norm(), vec![*ttl]);
                            for r in instance_records(&m.service, instance, *ttl, false) {
                                m.auth.entry(r.key().norm()).or_default().push(*ttl);
                            }
                        }
                    }
                    "op" => {
                        let n: usize = parts[1].parse().unwrap();
                        let idx: usize = parts[3].parse().unwrap();
                        let op = sc.nodes[n].script[idx].1.clone();
                        if let AppOp::SendMsg { exact, .. } = &op {
                            last_op_exact.insert(tid, *exact);
                        }
                        if let AppOp::SendRaw { .. } = &op {
                            last_op_exact.insert(tid, false);
                        }
                        if let AppOp::DropChannel = &op {
                            // values already queued are dropped with the receiver, later ones are
                            // never delivered: stop comparing on_discovery values of this node
                            models[n].disc_dontcare = true;
                        }
                        pending.insert(tid, Pending::App(op, seq));
                    }
                    "probe-api" => {
                        pending.insert(tid, Pending::ProbeAdd);
                    }
                    _ => {}
                }
            }
            EvKind::Fault { what } => {
                if let Some(rest) = what.strip_prefix("crash node ") {
                    if let Ok(n) = rest.parse::<u32>() {
                        crashed.insert(n);
                        if (n as usize) < models.len() {
                            models[n as usize].active = false;
                        }
                        windows.retain(|t, _| node_of(*t) != n);
                    }
                }
            }
            EvKind::Exit { how } => {
                thread_exit.insert(tid, *how);
                if let Some(w) = windows.remove(&tid) {
                    close_window!(tid, w, true);
                }
            }
            EvKind::LockBlock { lock, .. } => {
                if is_store_lock(*lock) {
                    lock_wait.insert(tid, true);
                }
            }
            EvKind::LockAcq { lock, .. } if !is_store_lock(*lock) => {}
            EvKind::LockAcq { write, lock: acq_lock } => {
                // node-local time at which this thread releases the lock again: while a read
                // lock is held the store cannot change, but time can pass (a scheduling point
                // inside the locked region, a pre-empted thread), so anything that expires
                // between acquire and release may or may not be seen by the reader
                let lt_rel = res.trace[ev_idx + 1..]
                    .iter()
                    .find(|e| e.tid == tid && matches!(e.kind, EvKind::LockRel { lock, .. } if lock == *acq_lock))
                    .map(|e| e.lt)
                    .unwrap_or(lt)
                    .max(lt);
                if lock_wait.remove(&tid).is_some() && *write {
                    st.writer_waited_for_reader += 1;
                }
                let n = node as usize;
                if n >= models.len() {
                    continue;
                }
                if is_service_thread(tid) {
                    if let Some(w) = windows.get_mut(&tid) {
                        if !*write {
                            if let Some(q) = &w.query {
                                w.expect = Some(expect_for(&models[n], q));
                                w.locked = true;
                            }
                        } else if !w.locked {
                            w.locked = true;
                            // ---- ingest of a response by the discovery listener
                            let d = w.dgram;
                            let dg = &res.dgrams[d as usize];
                            let exact = w.exact;
                            let m = &mut models[n];
                            if m.is_discovery && m.active {
                                st.ingests += 1;
                                if is_tokio_node(sc, n as u32) {
                                    st.tokio_ingests += 1;
                                }
                                if sc.v6 {
                                    st.ipv6_ingests += 1;
                                }
                                let decoded = refdns::decode(&dg.bytes, false);
                                let mut recs: Vec<(RecKey, u32, bool)> = Vec::new();
                                let mut fuzzy = !exact;
                                match &decoded {
                                    Ok(msg) if msg.is_response() => {
                                        for rr in msg.answers.iter().chain(msg.additional.iter()) {
                                            if !rr_class_valid(rr) || !rr.schema_ok {
                                                fuzzy = true;
                                            }
                                            recs.push((rr.key(), rr.ttl, rr.cache_flush()));
                                        }
                                        if msg.end != dg.bytes.len() {
                                            fuzzy = true;
                                        }
                                    }
                                    Ok(_) => {}
                                    Err(_) => fuzzy = true,
                                }
                                if fuzzy {
                                    st.ingests_fuzzy += 1;
                                    m.fuzzy_ingest = true;
                                    m.disc_dontcare = true;
                                    // whatever the real parser made of it may be in the store
                                    if let Ok(Ok(p)) = simrt::sim::quiet_panics(|| std::panic::catch_unwind(|| simple_dns::Packet::parse(&dg.bytes[..]))) {
                                        for r in p.answers.iter().chain(p.additional_records.iter()) {
                                            if let Some((k, ttl, cf, _)) = crate::runner::record_key(r) {
                                                recs.push((k, ttl, cf));
                                            }
                                        }
                                    }
                                }
                                let mut ingested: Vec<RecKey> = Vec::new();
                                for (k, ttl, cf) in recs {
                                    if k.owner == m.instance_full {
                                        st.ingest_filtered_own += 1;
                                        continue;
                                    }
                                    if !is_strict_subdomain(&k.owner, &m.service) {
                                        st.ingest_filtered_foreign += 1;
                                        continue;
                                    }
                                    if m.auth.contains_key(&k.norm()) {
                                        continue; // locally registered records stay authoritative
                                    }
                                    let secs: u64 = if cf { 1 } else { ttl as u64 };
                                    let expires = lt.saturating_add(secs.saturating_mul(1_000_000_000));
                                    st.ingested_records += 1;
                                    ingested.push(k.clone());
                                    let expires = match m.cache.get(&k) {
                                        Some(old) if fuzzy => old.expires.max(expires),
                                        _ => expires,
                                    };
                                    m.cache.insert(k, CacheEnt { expires, optional: fuzzy, ttl });
                                }
                                m.version += 1;
                                if m.channel && !ingested.is_empty() {
                                    if fuzzy {
                                        m.expected_disc.push(None);
                                    } else {
                                        let owners: BTreeSet<&Labels> = ingested.iter().map(|k| &k.owner).collect();
                                        if owners.len() == 1 {
                                            let owner = (*owners.iter().next().unwrap()).clone();
                                            let refs: Vec<&RecKey> = ingested.iter().collect();
                                            m.expected_disc.push(instance_from(&m.service, &owner, &refs));
                                        } else {
                                            m.expected_disc.push(None);
                                        }
                                    }
                                }
                                model_states.insert(model_hash(m, lt));
                            }
                        }
                    }
                } else {
                    // application thread
                    match pending.remove(&tid).unwrap_or(Pending::None) {
                        Pending::App(op, mark_seq) => {
                            let m = &mut models[n];
                            match (&op, *write) {
                                (AppOp::AddResource(rec), true) => {
                                    let k = rec.key();
                                    m.cache.remove(&k);
                                    m.auth.entry(k.norm()).or_default().push(rec.ttl);
                                    m.version += 1;
                                }
                                (AppOp::RemoveResource(rec), true) => {
                                    let k = rec.key();
                                    m.auth.remove(&k.norm());
                                    m.cache.remove(&k);
                                    m.version += 1;
                                }
                                (AppOp::Clear, true) => {
                                    m.auth.clear();
                                    m.cache.clear();
                                    m.version += 1;
                                }
                                (AppOp::RemoveFromDiscovery, false) => {
                                    // announce(true) reads first; the clear() follows under a write lock
                                    pending.insert(tid, Pending::App(op.clone(), mark_seq));
                                }
                                (AppOp::RemoveFromDiscovery, true) => {
                                    m.auth.clear();
                                    m.cache.clear();
                                    m.version += 1;
                                    // the service record is gone: what a lookup under the service
                                    // name returns from here on is not stated; safety checks only
                                    m.removed = true;
                                }
                                (AppOp::GetKnown, false) if false => {}
                                (AppOp::GetKnown, false) => {
                                    let (exp, sup, exact, expired) = expected_known(m, lt, lt_rel, &mut st);
                                    expect_known.insert(mark_seq, (n as u32, exp, sup, exact, expired));
                                }
                                (AppOp::DumpStore, false) => {
                                    let auth: BTreeSet<RecKey> = m.auth.keys().cloned().collect();
                                    let mut live = BTreeSet::new();
                                    let mut maybe = BTreeSet::new();
                                    let mut had_expired = false;
                                    for (k, e) in &m.cache {
                                        if k.rtype == t::OPT {
                                            // stray OPT pseudo-records are compared neither way
                                            // (the dump leaves them out too): two of them can
                                            // share a key and differ in the EDNS version bits
                                            continue;
                                        }
                                        if e.expires > lt_rel && !e.optional {
                                            live.insert(k.clone());
                                        } else if e.expires >= lt {
                                            maybe.insert(k.clone());
                                        } else {
                                            had_expired = true;
                                        }
                                    }
                                    if had_expired {
                                        st.dumps_with_expired += 1;
                                    }
                                    expect_store.insert(mark_seq, (n as u32, auth, live, maybe, m.fuzzy_ingest));
                                }
                                _ => {}
                            }
                            model_states.insert(model_hash(m, lt));
                        }
                        Pending::ProbeAdd => {
                            if *write {
                                let m = &mut models[n];
                                let r = probe_record(n as u32);
                                m.auth.entry(r.key().norm()).or_default().push(r.ttl);
                                m.version += 1;
                            }
                        }
                        Pending::None => {}
                    }
                }
            }
            EvKind::Recv { dgram, .. } => {
                if (node as usize) < models.len() && is_service_thread(tid) {
                    if let Some(w) = windows.remove(&tid) {
                        close_window!(tid, w, false);
                    }
                    let d = *dgram;
                    let dg = &res.dgrams[d as usize];
                    let par = parent_of(d);
                    let sender_exact = *dgram_exact.get(&par).unwrap_or(&true);
                    let exact = sender_exact && dg.fault.is_none();
                    let decoded = refdns::decode(&dg.bytes, false).ok();
                    if dg.fault.is_some() && decoded.is_some() {
                        st.truncated_accepted += 1;
                    }
                    let query = decoded.filter(|m| !m.is_response());
                    let m = &models[node as usize];
                    let expect = query.as_ref().map(|q| expect_for(m, q));
                    if let Some(id) = probe_dgram.get(&par) {
                        // remember which node's listener dequeued the probe
                        let _ = id;
                    }
                    windows.insert(tid, Window { recv_seq: seq, dgram: d, query, exact, expect, sends: Vec::new(), version_at_recv: m.version, locked: false });
                }
            }
            EvKind::RecvErr { kind, .. } => {
                let _ = matches!(kind, RecvErrKind::Timeout);
            }
            EvKind::RecvArm { .. } => {
                // back at the top of the receive loop: the previous datagram is dealt with
                if is_service_thread(tid) {
                    if let Some(w) = windows.remove(&tid) {
                        close_window!(tid, w, false);
                    }
                }
            }
            EvKind::Send { dgram, err, .. } => {
                let d = *dgram;
                let dg = &res.dgrams[d as usize];
                if node == PROBE_NODE_OFFSET {
                    if let Ok(m) = refdns::decode(&dg.bytes, false) {
                        probe_dgram.insert(d, m.id);
                        probe_send_t.insert(m.id, tglob);
                    }
                    continue;
                }
                if (node as usize) >= models.len() {
                    continue;
                }
                if let Some(code) = err {
                    if *code == 105 || *code == 101 {
                        models[node as usize].injected_send_err = true;
                    }
                }
                if is_service_thread(tid) {
                    dgram_exact.insert(d, true);
                    let in_window = windows.get(&tid).map(|w| w.query.is_some()).unwrap_or(false);
                    // every datagram a service emits must be a parseable DNS message
                    let ref_ok = refdns::decode(&dg.bytes, true).is_ok();
                    let real_ok = matches!(simrt::sim::quiet_panics(|| std::panic::catch_unwind(|| simple_dns::Packet::parse(&dg.bytes[..]).is_ok())), Ok(true));
                    if in_window {
                        st.replies_parse_checked += 1;
                        if !ref_ok || !real_ok {
                            push("C14", "unparseable-reply".into(), format!("node {}: a reply of {} bytes is not a parseable DNS message (independent reader: {}, Packet::parse: {})", node, dg.bytes.len(), ref_ok, real_ok));
                        }
                        // probe replies
                        if let Ok(m) = refdns::decode(&dg.bytes, false) {
                            if let Some(target) = probe_targets.get(&m.id) {
                                if *target == node && m.is_response() {
                                    if let Some(t0) = probe_send_t.get(&m.id) {
                                        if tglob.saturating_sub(*t0) <= PROBE_WINDOW_MS * 1_000_000 {
                                            probe_answered.insert(m.id);
                                        }
                                    }
                                }
                            }
                        }
                    } else {
                        st.other_sends_parse_checked += 1;
                        // a probe may be answered by another task than the one that dequeued it
                        if let Ok(m) = refdns::decode(&dg.bytes, false) {
                            if let Some(target) = probe_targets.get(&m.id) {
                                if *target == node && m.is_response() {
                                    if let Some(t0) = probe_send_t.get(&m.id) {
                                        if tglob.saturating_sub(*t0) <= PROBE_WINDOW_MS * 1_000_000 {
                                            probe_answered.insert(m.id);
                                        }
                                    }
                                }
                            }
                        }
                        if let NodeKind::Discovery { instance, ttl, asyncv: true, .. } = &sc.nodes[node as usize].kind {
                            // the tokio variant announces from its execution task
                            let m = &models[node as usize];
                            if m.active && !m.removed {
                                if let Ok(msg) = refdns::decode(&dg.bytes, true) {
                                    if msg.is_response() {
                                        st.announcements_judged += 1;
                                        announced.entry((node, m.inc)).or_default().extend(msg.answers.iter().chain(msg.additional.iter()).map(|r| r.key().norm()));
                                        if err.is_some() {
                                            announce_send_failed.insert((node, m.inc));
                                        }
                                        last_announce_t.insert((node, m.inc), tglob);
                                        judge_announcement(node, m, instance, *ttl, &msg, &mut findings_extra);
                                    }
                                }
                            }
                        }
                        if res.thread_names[tid as usize].matches('/').count() >= 1 && dg.bytes.len() >= 12 && dg.bytes[2] & 0x80 == 0 {
                            st.refresh_queries += 1;
                        }
                    }
                    if let Some(w) = windows.get_mut(&tid) {
                        w.sends.push((seq, d, *err));
                    }
                } else {
                    // application / raw peer thread
                    let exact = match &sc.nodes[node as usize].kind {
                        NodeKind::RawPeer { .. } => *last_op_exact.get(&tid).unwrap_or(&false),
                        _ => true,
                    };
                    dgram_exact.insert(d, exact);
                    // advertiser side of C15: what a discovery node announces must be exactly the
                    // records of the instance its application described
                    if let NodeKind::Discovery { instance, ttl, .. } = &sc.nodes[node as usize].kind {
                        let m = &models[node as usize];
                        if m.active && !m.removed {
                            if let Ok(msg) = refdns::decode(&dg.bytes, true) {
                                if msg.is_response() {
                                    st.announcements_judged += 1;
                                    announced.entry((node, m.inc)).or_default().extend(msg.answers.iter().chain(msg.additional.iter()).map(|r| r.key().norm()));
                                    if err.is_some() {
                                        announce_send_failed.insert((node, m.inc));
                                    }
                                    last_announce_t.insert((node, m.inc), tglob);
                                    judge_announcement(node, m, instance, *ttl, &msg, &mut findings_extra);
                                }
                            }
                        }
                    }
                }
            }
            _ => {}
        }
        if seq >= faults_off_seq && !stepped_past_end {
            stepped_past_end = true;
        }
    }
    // windows still open at the end of the run are truncated observations
    let open: Vec<u32> = windows.keys().copied().collect();
    for tid in open {
        if let Some(w) = windows.remove(&tid) {
            close_window!(tid, w, true);
        }
    }

    // ---- get_known_services / store dumps against the expectations taken under the lock
    for (mark_seq, (node, exp, superset, exact, expired_names)) in &expect_known {
        let Some((_, got)) = known_obs.get(mark_seq) else { continue };
        let m = &models[*node as usize];
        let own_name = match &sc.nodes[*node as usize].kind {
            NodeKind::Discovery { instance, .. } => instance.name.clone(),
            _ => String::new(),
        };
        for g in got.iter() {
            if g.name == own_name {
                findings.push(Finding { prop: "C15", sig: "reported-own-instance".into(), detail: format!("node {}: get_known_services reports the node's own instance {:?}", node, g.name) });
            }
            if g.name.is_empty() {
                findings.push(Finding { prop: "C15", sig: "reported-service-name".into(), detail: format!("node {}: get_known_services reports an instance with an empty name (the service name itself)", node) });
            }
        }
        let _ = m;
        // C20 (whole system): an instance all of whose records have expired must not be reported
        if *exact {
            for g in got.iter() {
                if expired_names.contains(&g.name) {
                    findings.push(Finding { prop: "C20", sig: "expired-instance-reported".into(), detail: format!("node {}: get_known_services reports instance {:?} although the TTL of every record received for it has elapsed", node, g.name) });
                }
            }
        }
        match (exp, exact) {
            (Some(exp), true) => {
                st.known_exact += 1;
                if is_tokio_node(sc, *node) {
                    st.tokio_known_exact += 1;
                }
                if !exp.is_empty() {
                    st.known_exact_nonempty += 1;
                }
                compare_instances("C15", "known", *node, exp, got, &mut findings);
            }
            _ => {
                st.known_safety_only += 1;
                // safety: every reported instance must be justified by some record the node may hold
                for g in got.iter() {
                    // reported names are un-escaped: compare modulo backslashes
                    let strip = |x: &str| x.replace('\\', "");
                    if !superset.iter().any(|s| strip(&s.name) == strip(&g.name)) {
                        findings.push(Finding { prop: "C15", sig: "known:unjustified-instance".into(), detail: format!("node {}: reported instance {:?} is justified by no record the node received", node, g.name) });
                    }
                }
            }
        }
    }
    for (mark_seq, (node, auth, live, maybe, fuzzy)) in &expect_store {
        let Some((_, entries)) = store_obs.get(mark_seq) else { continue };
        st.dumps_judged += 1;
        st.dump_entries += entries.len() as u64;
        let by = |f: &str| -> Vec<&StoreEntry> { entries.iter().filter(|e| e.filter == f).collect() };
        let got_auth: BTreeSet<RecKey> = by("auth").iter().map(|e| e.key.norm()).collect();
        let got_cached: BTreeSet<RecKey> = by("cached").iter().map(|e| e.key.clone()).collect();
        let got_all: BTreeSet<RecKey> = by("all").iter().map(|e| e.key.clone()).collect();
        // a stray OPT pseudo-record (hostile peers put them in the answer section) carries its
        // EDNS version in the TTL field: two of them can be different values with one key
        let n_all_no_opt = by("all").iter().filter(|e| e.key.rtype != t::OPT).count();
        let set_all_no_opt = got_all.iter().filter(|k| k.rtype != t::OPT).count();
        if n_all_no_opt != set_all_no_opt {
            findings.push(Finding { prop: "C16", sig: "store-duplicate-key".into(), detail: format!("node {}: the store returns the same record twice (equal records must replace each other as map keys)", node) });
        }
        for k in auth.difference(&got_auth) {
            findings.push(Finding { prop: "C20", sig: "authoritative-lost".into(), detail: format!("node {}: registered authoritative record {} type {} is no longer returned although it was neither removed nor cleared", node, name_to_string(&k.owner), k.rtype) });
        }
        for k in got_auth.difference(auth) {
            let sig = if live.iter().chain(maybe.iter()).any(|c| c.norm() == *k) { "cached-returned-as-authoritative" } else { "authoritative-unexpected" };
            findings.push(Finding { prop: "C20", sig: sig.into(), detail: format!("node {}: authoritative query returns {} type {} which is not a registered record", node, name_to_string(&k.owner), k.rtype) });
        }
        for k in got_cached.iter() {
            if auth.contains(&k.norm()) {
                findings.push(Finding { prop: "C20", sig: "authoritative-returned-by-cache-query".into(), detail: format!("node {}: cache-only query returns authoritative record {} type {}", node, name_to_string(&k.owner), k.rtype) });
            } else if !live.contains(k) && !maybe.contains(k) && !*fuzzy {
                findings.push(Finding { prop: "C20", sig: "expired-or-unknown-returned".into(), detail: format!("node {}: cache query returns {} type {} which the node never received or whose TTL has elapsed", node, name_to_string(&k.owner), k.rtype) });
            }
        }
        // C16(3): a stored (owned) copy that differs from the record that was received
        for k in live.difference(&got_cached) {
            if let Some(g) = got_cached.iter().find(|g| !live.contains(*g) && !maybe.contains(*g) && g.rtype == k.rtype && g.class == k.class && (g.owner == k.owner || g.rdata == k.rdata)) {
                findings.push(Finding { prop: "C16", sig: format!("stored-copy-differs:t{}", k.rtype), detail: format!("node {}: {} type {} was received with rdata {:02x?} but the stored owned copy is {} with rdata {:02x?}", node, name_to_string(&k.owner), k.rtype, &k.rdata[..k.rdata.len().min(24)], name_to_string(&g.owner), &g.rdata[..g.rdata.len().min(24)]) });
            }
        }
        for k in live.difference(&got_cached) {
            findings.push(Finding { prop: "C20", sig: "live-record-missing".into(), detail: format!("node {}: {} type {} was received and its TTL has not elapsed, yet the cache query does not return it", node, name_to_string(&k.owner), k.rtype) });
        }
        let union: BTreeSet<RecKey> = got_auth.iter().cloned().chain(got_cached.iter().map(|k| k.norm())).collect();
        let got_all_n: BTreeSet<RecKey> = got_all.iter().map(|k| k.norm()).collect();
        if union != got_all_n {
            findings.push(Finding { prop: "C20", sig: "combined-filter-inconsistent".into(), detail: format!("node {}: the combined filter returns {} records, authoritative+cached return {}", node, got_all.len(), union.len()) });
        }
    }

    // ---- on_discovery values
    for (n, m) in models.iter().enumerate() {
        if !m.is_discovery || !m.channel {
            continue;
        }
        let got = disc_obs.get(&(n as u32, m.inc)).cloned().unwrap_or_default();
        if m.disc_dontcare || crashed.contains(&(n as u32)) {
            st.discovered_skipped += got.len() as u64;
            continue;
        }
        // the application may not have drained the last few values: compare the common prefix
        for (i, g) in got.iter().enumerate() {
            match m.expected_disc.get(i) {
                Some(Some(e)) => {
                    st.discovered_judged += 1;
                    compare_instances("C15", "discovered", n as u32, &[e.clone()], &[(*g).clone()], &mut findings);
                }
                Some(None) => st.discovered_skipped += 1,
                None => findings.push(Finding { prop: "C15", sig: "discovered:unexpected-value".into(), detail: format!("node {}: on_discovery delivered {:?} but no response was ingested that justifies it", n, g.name) }),
            }
        }
    }

    // ---- bounded liveness after faults stopped
    for (id, node) in &probe_targets {
        st.probes_sent += 1;
        let m = &models[*node as usize];
        // the probe asks for a record the node holds: its service PTR (discovery) or the probe
        // record the application just registered (responder)
        let holds = match crate::runner::service_question(sc, *node) {
            Some(q) => m.auth.keys().any(|k| k.owner == q.name && k.rtype == q.qtype),
            None => false,
        };
        let excluded = crashed.contains(node) || !m.active || !holds || m.injected_send_err || ctor_failed.contains(&(*node, m.inc)) || st.cut_short;
        if excluded {
            st.probes_excluded += 1;
            continue;
        }
        if probe_answered.contains(id) {
            st.probes_answered += 1;
        } else {
            // describe what became of the node's listener
            let mut fate = Vec::new();
            for (tid, name) in res.thread_names.iter().enumerate() {
                if res.thread_nodes[tid] == *node && name.contains('/') {
                    fate.push(format!("{}={:?}", name, thread_exit.get(&(tid as u32))));
                }
            }
            let kind = match &sc.nodes[*node as usize].kind {
                NodeKind::Discovery { .. } => "discovery",
                NodeKind::Responder { .. } => "responder",
                _ => "other",
            };
            findings.push(Finding { prop: "C14", sig: format!("wedged:{}", kind), detail: format!("node {} ({}): a valid query for a record it holds was not answered within {} ms after all faults stopped; service threads: {}", node, kind, PROBE_WINDOW_MS, fate.join(", ")) });
        }
    }

    // ---- escape/unescape pair on the names this scenario uses (input-quantified half of C15)
    for n in &sc.nodes {
        if let NodeKind::Discovery { instance, .. } = &n.kind {
            let mut strs = vec![instance.name.clone(), format!("{}.x", instance.name), format!("\\{}.", instance.name), "a\\.b\\\\".to_string()];
            // a few seeded strings over the characters that matter to the escaping
            let mut r = simrt::rng::Rng::new(simrt::rng::mix(sc.seed, 0xE5C));
            for _ in 0..4 {
                let n = r.usize_below(9);
                strs.push((0..n).map(|_| *r.pick(&['a', '.', '\\', 'é', ' ', '-'])).collect());
            }
            for s in strs {
                let esc = simple_mdns::InstanceInformation::new(s.clone()).escaped_instance_name();
                let back = simple_mdns::InstanceInformation::new(esc.clone()).unescaped_instance_name();
                if back != s {
                    findings.push(Finding { prop: "C15", sig: "escape-roundtrip".into(), detail: format!("escape({:?}) = {:?}, unescape gives {:?}", s, esc, back) });
                }
            }
        }
    }

    for ((node, inc), set) in &announced {
        let m = &models[*node as usize];
        // a crash or the end of the run may cut an announcement between two of its datagrams
        let run_end = res.trace.last().map(|e| e.t).unwrap_or(0);
        let recent = last_announce_t.get(&(*node, *inc)).map_or(false, |t| run_end.saturating_sub(*t) < 1_000_000_000);
        if m.inc != *inc || announce_send_failed.contains(&(*node, *inc)) || crashed.contains(node) || st.cut_short || recent {
            continue;
        }
        if let NodeKind::Discovery { instance, ttl, .. } = &sc.nodes[*node as usize].kind {
            judge_announced_union(*node, m, instance, *ttl, set, &mut findings_extra);
        }
    }
    findings.extend(findings_extra);
    findings.sort_by(|a, b| (a.prop, &a.sig).cmp(&(b.prop, &b.sig)));
    findings.dedup_by(|a, b| a.prop == b.prop && a.sig == b.sig);
    Analysis { findings, stats: st, model_states, harness_error }
}

/// Expected result of get_known_services at local time `now`:
/// (exact expectation if unambiguous, superset of justifiable instances, exact?)
fn expected_known(m: &NodeModel, now: u64, until: u64, st: &mut OStats) -> (Option<Vec<InstObs>>, Vec<InstObs>, bool, Vec<String>) {
    let mut exact = !m.fuzzy_ingest && !m.removed;
    let mut groups: BTreeMap<Labels, Vec<&RecKey>> = BTreeMap::new();
    let mut all_groups: BTreeMap<Labels, Vec<&RecKey>> = BTreeMap::new();
    let mut had_expired = false;
    let mut expired_owners: BTreeSet<Labels> = BTreeSet::new();
    for (k, e) in &m.cache {
        if e.expires < now && !e.optional {
            expired_owners.insert(k.owner.clone());
        }
        if e.expires >= now {
            all_groups.entry(k.owner.clone()).or_default().push(k);
        }
        if e.optional && e.expires >= now {
            exact = false;
        }
        if e.expires >= now && e.expires <= until {
            // expiring while the reader holds the lock (a single instant in the unchanged code,
            // where nothing inside the locked region is a scheduling point): either answer
            exact = false;
        }
        if e.expires > until {
            groups.entry(k.owner.clone()).or_default().push(k);
        } else {
            had_expired = true;
        }
    }
    if had_expired {
        st.known_with_expired_entries += 1;
    }
    let mut sup = Vec::new();
    for (owner, recs) in &all_groups {
        if let Some(i) = instance_from(&m.service, owner, recs) {
            sup.push(i);
        } else {
            sup.push(InstObs { name: owner[..owner.len() - m.service.len()].iter().map(|l| String::from_utf8_lossy(l).to_string()).collect::<Vec<_>>().join("."), ips: vec![], ports: vec![], attrs: vec![] });
        }
    }
    let mut out = Vec::new();
    for (owner, recs) in &groups {
        match instance_from(&m.service, owner, recs) {
            Some(i) => out.push(i),
            None => {
                exact = false;
            }
        }
    }
    out.sort_by(|a, b| a.name.cmp(&b.name));
    // owners all of whose records have expired (none live, none at the boundary)
    let expired_names: Vec<String> = expired_owners
        .iter()
        .filter(|o| !all_groups.contains_key(*o) && o.len() > m.service.len())
        .map(|o| o[..o.len() - m.service.len()].iter().map(|l| String::from_utf8_lossy(l).to_string()).collect::<Vec<_>>().join("."))
        .collect();
    (if exact { Some(out) } else { None }, sup, exact, expired_names)
}

fn compare_instances(prop: &'static str, what: &str, node: u32, exp: &[InstObs], got: &[InstObs], findings: &mut Vec<Finding>) {
    let e: BTreeMap<&str, &InstObs> = exp.iter().map(|i| (i.name.as_str(), i)).collect();
    let g: BTreeMap<&str, &InstObs> = got.iter().map(|i| (i.name.as_str(), i)).collect();
    for (name, ei) in &e {
        match g.get(name) {
            None => findings.push(Finding { prop, sig: format!("{}:missing-instance", what), detail: format!("node {}: instance {:?} was advertised (and is live) but is not reported; reported: {:?}", node, name, got.iter().map(|x| &x.name).collect::<Vec<_>>()) }),
            Some(gi) => {
                if gi.ips != ei.ips {
                    findings.push(Finding { prop, sig: format!("{}:ip-addresses", what), detail: format!("node {}: instance {:?} reported with addresses {:?}, advertised {:?}", node, name, gi.ips, ei.ips) });
                }
                if gi.ports != ei.ports {
                    findings.push(Finding { prop, sig: format!("{}:ports", what), detail: format!("node {}: instance {:?} reported with ports {:?}, advertised {:?}", node, name, gi.ports, ei.ports) });
                }
                if gi.attrs != ei.attrs {
                    findings.push(Finding { prop, sig: format!("{}:attributes", what), detail: format!("node {}: instance {:?} reported with attributes {:?}, advertised {:?}", node, name, gi.attrs, ei.attrs) });
                }
            }
        }
    }
    for name in g.keys() {
        if !e.contains_key(name) {
            findings.push(Finding { prop, sig: format!("{}:extra-instance", what), detail: format!("node {}: instance {:?} is reported but no live received record justifies it (expected {:?})", node, name, exp.iter().map(|x| &x.name).collect::<Vec<_>>()) });
        }
    }
    if got.len() != g.len() {
        findings.push(Finding { prop, sig: format!("{}:duplicate-instance", what), detail: format!("node {}: the same instance name is reported more than once", node) });
    }
}

/// Advertiser side of C15: an announcement must carry exactly the records of the instance the
/// application described (plus, at most, the service PTR pointing at it).
fn judge_announcement(node: u32, m: &NodeModel, instance: &crate::scenario::InstSpec, ttl: u32, msg: &Msg, out: &mut Vec<Finding>) {
    let want: BTreeSet<RecKey> = instance_records(&m.service, instance, ttl, false).iter().map(|r| r.key().norm()).collect();
    // only records a discoverer would ingest and turn into reported data can be "unexpected":
    // addresses, ports and attributes under the watched service. Anything else an
    // implementation chooses to add (PTR, NSEC, ...) does not change what is reported.
    let affects = |k: &RecKey| matches!(k.rtype, t::A | t::AAAA | t::SRV | t::TXT) && is_strict_subdomain(&k.owner, &m.service);
    for rr in msg.answers.iter().chain(msg.additional.iter()) {
        let k = rr.key().norm();
        if affects(&k) && !want.contains(&k) {
            out.push(Finding { prop: "C15", sig: "announce:record-unexpected".into(), detail: format!("node {}: the announcement of instance {:?} carries {} type {} rdata {:?} which the application did not describe", node, instance.name, name_to_string(&k.owner), k.rtype, String::from_utf8_lossy(&k.rdata)) });
        }
    }
}

/// The union of everything a node announced must cover the instance its application described
/// (an implementation may split its announcement over several datagrams).
fn judge_announced_union(node: u32, m: &NodeModel, instance: &crate::scenario::InstSpec, ttl: u32, announced: &BTreeSet<RecKey>, out: &mut Vec<Finding>) {
    let want: BTreeSet<RecKey> = instance_records(&m.service, instance, ttl, false).iter().map(|r| r.key().norm()).collect();
    for k in want.difference(announced) {
        out.push(Finding { prop: "C15", sig: "announce:record-missing".into(), detail: format!("node {}: no announcement of instance {:?} carried its {} record (type {}, rdata {:?})", node, instance.name, name_to_string(&k.owner), k.rtype, String::from_utf8_lossy(&k.rdata)) });
    }
}

fn is_tokio_node(sc: &Scenario, node: u32) -> bool {
    match sc.nodes.get(node as usize).map(|n| &n.kind) {
        Some(NodeKind::Discovery { asyncv, .. }) | Some(NodeKind::Responder { asyncv, .. }) | Some(NodeKind::Resolver { asyncv }) => *asyncv,
        _ => false,
    }
}
