#![recursion_limit = "512"]
//! mdns-sim: N nodes running the real simple-mdns sync services under the deterministic
//! simulator `simrt`. Decides C13, C14, C15, C16, C20.
//!
//! usage:
//!   mdnssim check <Cxx> [--tier quick|thorough] [--seed N] [--runs N] [--jobs N]
//!   mdnssim replay <file> [--trace]
//!   mdnssim worker <Cxx> <verif_seed> <first> <count> <stride>      (internal)
//!   mdnssim determinism <Cxx> <runs>                                 (event-log digest per run)
//! exit codes: 0 held (or only known findings), 1 VIOLATION, 2 harness error.

mod model;
mod runner;
mod scenario;
mod store;

use std::collections::{BTreeMap, HashSet};
use std::io::{BufRead, BufReader, Write};
use std::path::{Path, PathBuf};
use std::process::{Command, Stdio};
use std::time::Instant;

use model::{analyse, Finding, OStats};
use scenario::{generate, AppOp, NodeKind, Profile, Scenario};
use serde::{Deserialize, Serialize};
use simrt::rng::{hash_str, mix};

#[derive(Clone, Debug, Serialize, Deserialize)]
pub struct Replay {
    pub property: String,
    pub signature: String,
    pub detail: String,
    pub verif_seed: u64,
    pub run_index: u64,
    pub minimised: bool,
    pub kind: String, // "system" | "store"
    pub scenario: Option<Scenario>,
    pub history: Option<store::History>,
}

fn profile_for(prop: &str, idx: u64) -> Profile {
    let x = idx % 10;
    match prop {
        "C13" => if x < 5 { Profile::Clean } else { Profile::Lossy },
        "C14" => if x < 6 { Profile::Hostile } else { Profile::Chaos },
        "C15" => if x < 4 { Profile::Clean } else if x < 8 { Profile::Lossy } else { Profile::Chaos },
        "C16" => if x < 4 { Profile::Clean } else if x < 7 { Profile::Lossy } else { Profile::Hostile },
        _ => if x < 3 { Profile::Clean } else if x < 7 { Profile::Lossy } else { Profile::Chaos },
    }
}

fn run_seed(verif_seed: u64, prop: &str, idx: u64) -> u64 {
    mix(verif_seed, mix(hash_str(prop), idx))
}

#[derive(Default, Serialize, Deserialize, Clone)]
struct Tally {
    runs: u64,
    nontrivial_fps: Vec<u64>,
    model_states: Vec<u64>,
    sim_time_ns: u128,
    steps: u64,
    switches: u64,
    threads: u64,
    sent: u64,
    delivered: u64,
    dropped_loss: u64,
    dropped_partition: u64,
    dropped_overflow: u64,
    dropped_closed: u64,
    duplicated: u64,
    delayed: u64,
    payload_faults: [u64; 6],
    send_errors: u64,
    recv_interrupts: u64,
    recv_timeouts: u64,
    oversleeps: u64,
    crashes: u64,
    clock_jumps: u64,
    stalls: u64,
    lock_blocks: u64,
    preemptions: u64,
    partitions: u64,
    step_limit_runs: u64,
    cut_short_by_other_property: u64,
    profiles: BTreeMap<String, u64>,
    ostats: BTreeMap<String, u64>,
    samples: Vec<serde_json::Value>,
    store_histories: u64,
    store_ops: u64,
    store_queries: u64,
    store_boundary_hits: u64,
    store_distinct: Vec<u64>,
}

fn ostats_map(o: &OStats) -> BTreeMap<String, u64> {
    let mut m = BTreeMap::new();
    macro_rules! put { ($($f:ident),*) => { $( m.insert(stringify!($f).to_string(), o.$f); )* } }
    put!(windows, queries_judged, queries_skipped_inexact, queries_skipped_pipeline, replies_judged, replies_expected_and_seen,
        silent_expected_and_seen, store_mutated_between_recv_and_lock, writer_waited_for_reader,
        replies_parse_checked, other_sends_parse_checked, ingests, ingests_fuzzy, ingested_records,
        ingest_filtered_own, ingest_filtered_foreign, known_exact, known_exact_nonempty, known_safety_only,
        known_with_expired_entries, discovered_judged, discovered_skipped, dumps_judged, dump_entries,
        dumps_with_expired, c16_instances, c16_dump_checks, probes_sent, probes_answered, probes_excluded,
        api_probes, resolver_probes, resolver_calls, resolver_answers, resolver_deadlines_judged, panics_seen, refresh_queries, truncated_accepted, announcements_judged, replies_in_several_datagrams, tokio_windows, tokio_replies_judged, tokio_known_exact, tokio_ingests, ipv6_ingests, ipv6_replies_judged);
    m
}

fn nontrivial(prop: &str, o: &OStats) -> bool {
    match prop {
        "C13" => o.queries_judged > 0,
        "C14" => o.windows > 0,
        "C15" => o.known_exact_nonempty > 0 || o.discovered_judged > 0 || o.announcements_judged > 0,
        "C16" => o.c16_instances > 0 || (o.c16_dump_checks > 0 && o.dump_entries > 0),
        _ => o.dumps_judged > 0 && o.dump_entries > 0,
    }
}

fn scenario_summary(sc: &Scenario) -> serde_json::Value {
    let nodes: Vec<String> = sc
        .nodes
        .iter()
        .map(|n| match &n.kind {
            NodeKind::Discovery { service, instance, ttl, channel, asyncv } => format!("{} discovery({} @ {}, ttl {}, {} ips, {} ports, {} attrs, channel {}) ops {}", if *asyncv { "tokio" } else { "sync" }, instance.name, service, ttl, instance.ips.len(), instance.ports.len(), instance.attrs.len(), channel, n.script.len()),
            NodeKind::Responder { ttl, asyncv } => format!("{} responder(ttl {}) ops {}", if *asyncv { "tokio" } else { "sync" }, ttl, n.script.len()),
            NodeKind::Resolver { asyncv } => format!("{} one-shot resolver ops {}", if *asyncv { "tokio" } else { "sync" }, n.script.len()),
            NodeKind::RawPeer { port, joined } => format!("raw peer(port {:?}, joined {}) datagrams {}", port, joined, n.script.len()),
        })
        .collect();
    serde_json::json!({"run_seed": sc.seed, "profile": format!("{:?}", sc.profile), "duration_ms": sc.duration_ms, "nodes": nodes, "fault_script": sc.root.iter().map(|(t, s)| format!("{}ms {:?}", t, s)).collect::<Vec<_>>(),
        "knobs": {"drop_ppm": sc.knobs.drop_ppm, "dup_ppm": sc.knobs.dup_ppm, "corrupt_ppm": sc.knobs.corrupt_ppm, "delay_ppm": sc.knobs.delay_ppm, "latency_ns": sc.knobs.base_latency_ns, "jitter_ns": sc.knobs.jitter_ns, "send_err_ppm": sc.knobs.send_err_ppm}})
}

/// One system run: returns findings for all properties plus the tally contribution.
fn one_run(prop: &str, sc: &Scenario, tally: &mut Tally) -> Result<Vec<Finding>, String> {
    let out = runner::run(sc);
    let an = analyse(sc, &out);
    if let Some(e) = an.harness_error {
        return Err(e);
    }
    let s = &out.res.stats;
    tally.runs += 1;
    tally.sim_time_ns += out.res.end_time_ns as u128;
    tally.steps += s.steps;
    tally.switches += s.context_switches;
    tally.threads += s.threads;
    tally.sent += s.sent;
    tally.delivered += s.delivered;
    tally.dropped_loss += s.dropped_loss;
    tally.dropped_partition += s.dropped_partition;
    tally.dropped_overflow += s.dropped_overflow;
    tally.dropped_closed += s.dropped_closed;
    tally.duplicated += s.duplicated;
    tally.delayed += s.delayed;
    for i in 0..6 {
        tally.payload_faults[i] += s.payload_faults[i];
    }
    tally.send_errors += s.send_errors;
    tally.recv_interrupts += s.recv_interrupts;
    tally.recv_timeouts += s.recv_timeouts;
    tally.oversleeps += s.oversleeps;
    tally.crashes += s.crashes;
    tally.clock_jumps += s.clock_jumps;
    tally.stalls += s.stalls;
    tally.lock_blocks += s.lock_blocks;
    tally.preemptions += s.preemptions;
    tally.partitions += sc.root.iter().filter(|(_, st)| matches!(st, scenario::RootStep::Partition { .. })).count() as u64;
    if an.stats.cut_short {
        tally.step_limit_runs += 1;
    }
    *tally.profiles.entry(format!("{:?}{}", sc.profile, if sc.v6 { "/ipv6" } else { "" })).or_default() += 1;
    for (k, v) in ostats_map(&an.stats) {
        *tally.ostats.entry(k).or_default() += v;
    }
    if nontrivial(prop, &an.stats) {
        tally.nontrivial_fps.push(out.res.fingerprint);
    }
    tally.model_states.extend(an.model_states.iter().copied());
    if prop != "C14" && an.findings.iter().any(|f| f.prop == "C14" && f.sig.starts_with("panic")) {
        tally.cut_short_by_other_property += 1;
    }
    if tally.samples.len() < 2 && nontrivial(prop, &an.stats) {
        let mut v = scenario_summary(sc);
        let excerpt: Vec<String> = out.res.trace.iter().skip(out.res.trace.len() / 3).take(14).map(|e| format!("#{} t={}ns tid={} node={} {:?}", e.seq, e.t, e.tid, e.node as i64, e.kind)).collect();
        v["trace_excerpt"] = serde_json::json!(excerpt);
        v["events"] = serde_json::json!(out.res.trace.len());
        tally.samples.push(v);
    }
    Ok(an.findings)
}

#[derive(Serialize, Deserialize)]
enum WorkerMsg {
    Finding { run_index: u64, prop: String, sig: String, detail: String, scenario: Option<Scenario>, history: Option<store::History> },
    Tally(Tally),
    Error(String),
}

/// Regression corpus: minimised scenarios / store histories that once exposed a defect of the
/// pinned tree or a seeded change (`corpus/<prop>/*.json`, replay-file format). Every check
/// re-executes them first, so a defect that returns is reported deterministically and not only
/// when the seeded search happens to line the same things up again. Any finding of the
/// property counts, not just the signature recorded in the file.
fn corpus_files(prop: &str) -> Vec<PathBuf> {
    let dir = PathBuf::from(format!("{}/corpus/{}", verif_root(), prop));
    let mut v: Vec<PathBuf> = match std::fs::read_dir(&dir) {
        Ok(rd) => rd.filter_map(|e| e.ok().map(|e| e.path())).filter(|p| p.extension().map_or(false, |x| x == "json")).collect(),
        Err(_) => Vec::new(),
    };
    v.sort();
    v
}

const CORPUS_INDEX_BASE: u64 = 1 << 62;

fn worker_corpus(prop: &str, first: u64, stride: u64, tally: &mut Tally, seen: &mut HashSet<String>) {
    let stdout = std::io::stdout();
    for (idx, path) in corpus_files(prop).iter().enumerate() {
        if idx as u64 % stride != first {
            continue;
        }
        let rp: Replay = match std::fs::read_to_string(path).map_err(|e| e.to_string()).and_then(|s| serde_json::from_str(&s).map_err(|e| e.to_string())) {
            Ok(r) => r,
            Err(e) => {
                let m = WorkerMsg::Error(format!("corpus file {} unreadable: {}", path.display(), e));
                writeln!(stdout.lock(), "{}", serde_json::to_string(&m).unwrap()).unwrap();
                continue;
            }
        };
        *tally.ostats.entry("corpus_scenarios_replayed".into()).or_default() += 1;
        let run_index = CORPUS_INDEX_BASE + idx as u64;
        let fds: Result<Vec<model::Finding>, String> = match rp.kind.as_str() {
            "store" => rp.history.as_ref().ok_or_else(|| "no history".to_string()).and_then(|h| store::run(h).map(|r| r.findings)),
            _ => {
                let mut scratch = Tally::default();
                rp.scenario.as_ref().ok_or_else(|| "no scenario".to_string()).and_then(|sc| one_run(prop, sc, &mut scratch))
            }
        };
        match fds {
            Ok(fds) => {
                let spun = fds.iter().any(|f| f.sig.starts_with("spin:"));
                for f in fds {
                    if f.prop == prop && seen.insert(f.sig.clone()) {
                        let m = WorkerMsg::Finding { run_index, prop: f.prop.to_string(), sig: f.sig, detail: format!("{} [corpus entry {}]", f.detail, path.file_name().unwrap().to_string_lossy()), scenario: rp.scenario.clone(), history: rp.history.clone() };
                        writeln!(stdout.lock(), "{}", serde_json::to_string(&m).unwrap()).unwrap();
                    }
                }
                if spun {
                    compact(tally);
                    writeln!(stdout.lock(), "{}", serde_json::to_string(&WorkerMsg::Tally(std::mem::take(tally))).unwrap()).unwrap();
                    std::process::exit(0);
                }
            }
            Err(e) => {
                let m = WorkerMsg::Error(format!("corpus file {}: {}", path.display(), e));
                writeln!(stdout.lock(), "{}", serde_json::to_string(&m).unwrap()).unwrap();
            }
        }
    }
}

fn worker(prop: &str, verif_seed: u64, first: u64, count: u64, stride: u64, store_runs: u64) {
    let mut tally = Tally::default();
    let stdout = std::io::stdout();
    let mut seen: HashSet<String> = HashSet::new();
    worker_corpus(prop, first, stride, &mut tally, &mut seen);
    let mut i = first;
    let mut done = 0;
    while done < count {
        let seed = run_seed(verif_seed, prop, i);
        let sc = generate(seed, prop, profile_for(prop, i));
        match one_run(prop, &sc, &mut tally) {
            Ok(fds) => {
                let spun = fds.iter().any(|f| f.sig.starts_with("spin:"));
                for f in fds {
                    if f.prop != prop {
                        continue;
                    }
                    if seen.insert(f.sig.clone()) {
                        let m = WorkerMsg::Finding { run_index: i, prop: f.prop.to_string(), sig: f.sig, detail: f.detail, scenario: Some(sc.clone()), history: None };
                        writeln!(stdout.lock(), "{}", serde_json::to_string(&m).unwrap()).unwrap();
                    }
                }
                if spun {
                    // a thread of the code under test is still spinning in this process: report
                    // what we have and leave (the remaining runs of this worker are not executed)
                    if prop != "C14" {
                        let m = WorkerMsg::Error(format!("run {} (seed {}): a thread of the code under test spins without terminating (a C14 violation: run ./check C14); this batch cannot continue", i, seed));
                        writeln!(stdout.lock(), "{}", serde_json::to_string(&m).unwrap()).unwrap();
                    }
                    compact(&mut tally);
                    writeln!(stdout.lock(), "{}", serde_json::to_string(&WorkerMsg::Tally(tally)).unwrap()).unwrap();
                    std::process::exit(0);
                }
            }
            Err(e) => {
                let m = WorkerMsg::Error(format!("run {} (seed {}): {}", i, seed, e));
                writeln!(stdout.lock(), "{}", serde_json::to_string(&m).unwrap()).unwrap();
            }
        }
        i += stride;
        done += 1;
        if done % 20_000 == 0 {
            compact(&mut tally);
        }
    }
    // store-level histories (C20 layer A, C13 core) share the worker
    if store_runs > 0 {
        let mut j = first;
        let mut d = 0;
        while d < store_runs {
            let seed = run_seed(verif_seed, &format!("{}-store", prop), j);
            let h = store::generate(seed, prop);
            match store::run(&h) {
                Ok(rep) => {
                    tally.store_histories += 1;
                    tally.store_ops += rep.ops;
                    tally.store_queries += rep.queries;
                    tally.store_boundary_hits += rep.boundary_hits;
                    if rep.queries > 0 {
                        tally.store_distinct.push(rep.fingerprint);
                    }
                    if tally.samples.len() < 3 && rep.queries > 2 {
                        tally.samples.push(serde_json::json!({"store_history": h.ops.iter().take(12).map(|o| format!("{:?}", o)).collect::<Vec<_>>()}));
                    }
                    for f in rep.findings {
                        if f.prop == prop && seen.insert(f.sig.clone()) {
                            let m = WorkerMsg::Finding { run_index: j, prop: f.prop.to_string(), sig: f.sig, detail: f.detail, scenario: None, history: Some(h.clone()) };
                            writeln!(stdout.lock(), "{}", serde_json::to_string(&m).unwrap()).unwrap();
                        }
                    }
                }
                Err(e) => {
                    let m = WorkerMsg::Error(format!("store history {} (seed {}): {}", j, seed, e));
                    writeln!(stdout.lock(), "{}", serde_json::to_string(&m).unwrap()).unwrap();
                }
            }
            j += stride;
            d += 1;
            if d % 200_000 == 0 {
                compact(&mut tally);
            }
        }
    }
    compact(&mut tally);
    writeln!(stdout.lock(), "{}", serde_json::to_string(&WorkerMsg::Tally(tally)).unwrap()).unwrap();
}

/// de-duplicate (and bound) the fingerprint lists before they cross the pipe
fn compact(t: &mut Tally) {
    for v in [&mut t.nontrivial_fps, &mut t.model_states, &mut t.store_distinct] {
        v.sort_unstable();
        v.dedup();
        v.truncate(1_500_000);
    }
}

fn reproduces(rp: &Replay) -> Result<Option<String>, String> {
    match rp.kind.as_str() {
        "store" => {
            let rep = store::run(rp.history.as_ref().ok_or("no history")?)?;
            Ok(rep.findings.into_iter().find(|f| f.prop == rp.property && f.sig == rp.signature).map(|f| f.detail))
        }
        _ => {
            let sc = rp.scenario.as_ref().ok_or("no scenario")?;
            let mut t = Tally::default();
            let fds = one_run(&rp.property, sc, &mut t)?;
            Ok(fds.into_iter().find(|f| f.prop == rp.property && f.sig == rp.signature).map(|f| f.detail))
        }
    }
}

fn minimise(rp: &Replay) -> Replay {
    let mut cur = rp.clone();
    let still = |c: &Replay| matches!(reproduces(c), Ok(Some(_)));
    if !still(&cur) {
        return cur;
    }
    if cur.kind == "store" {
        let mut progress = true;
        while progress {
            progress = false;
            let mut i = 0;
            while i < cur.history.as_ref().unwrap().ops.len() {
                let mut c = cur.clone();
                c.history.as_mut().unwrap().ops.remove(i);
                if still(&c) {
                    cur = c;
                    progress = true;
                } else {
                    i += 1;
                }
            }
        }
    } else {
        let mut budget = 400;
        let mut progress = true;
        while progress && budget > 0 {
            progress = false;
            // empty whole nodes (keeping the numbering)
            let n_nodes = cur.scenario.as_ref().unwrap().nodes.len();
            for ni in 0..n_nodes {
                let sc = cur.scenario.as_ref().unwrap();
                if sc.nodes[ni].script.is_empty() && matches!(sc.nodes[ni].kind, NodeKind::RawPeer { .. }) {
                    continue;
                }
                let mut c = cur.clone();
                let n = &mut c.scenario.as_mut().unwrap().nodes[ni];
                n.kind = NodeKind::RawPeer { port: None, joined: false };
                n.script.clear();
                budget -= 1;
                if still(&c) {
                    cur = c;
                    progress = true;
                }
            }
            // drop fault steps
            let mut i = 0;
            while i < cur.scenario.as_ref().unwrap().root.len() && budget > 0 {
                let mut c = cur.clone();
                c.scenario.as_mut().unwrap().root.remove(i);
                budget -= 1;
                if still(&c) {
                    cur = c;
                    progress = true;
                } else {
                    i += 1;
                }
            }
            // drop script steps
            for ni in 0..n_nodes {
                let mut i = 0;
                while i < cur.scenario.as_ref().unwrap().nodes[ni].script.len() && budget > 0 {
                    let mut c = cur.clone();
                    c.scenario.as_mut().unwrap().nodes[ni].script.remove(i);
                    budget -= 1;
                    if still(&c) {
                        cur = c;
                        progress = true;
                    } else {
                        i += 1;
                    }
                }
            }
            // simplify knobs
            for k in 0..8 {
                let mut c = cur.clone();
                let kn = &mut c.scenario.as_mut().unwrap().knobs;
                let changed = match k {
                    0 if kn.drop_ppm != 0 => { kn.drop_ppm = 0; true }
                    1 if kn.dup_ppm != 0 => { kn.dup_ppm = 0; true }
                    2 if kn.corrupt_ppm != 0 => { kn.corrupt_ppm = 0; true }
                    3 if kn.delay_ppm != 0 => { kn.delay_ppm = 0; true }
                    4 if kn.send_err_ppm != 0 => { kn.send_err_ppm = 0; true }
                    5 if kn.recv_intr_ppm != 0 => { kn.recv_intr_ppm = 0; true }
                    6 if kn.oversleep_max_ns != 0 => { kn.oversleep_max_ns = 0; true }
                    7 if kn.step_jitter_ns != 1000 => { kn.step_jitter_ns = 1000; true }
                    _ => false,
                };
                if changed {
                    budget -= 1;
                    if still(&c) {
                        cur = c;
                        progress = true;
                    }
                }
            }
            // shrink records inside SendMsg ops
            for ni in 0..n_nodes {
                for oi in 0..cur.scenario.as_ref().unwrap().nodes[ni].script.len() {
                    loop {
                        let mut c = cur.clone();
                        let mut changed = false;
                        if let AppOp::SendMsg { msg, .. } = &mut c.scenario.as_mut().unwrap().nodes[ni].script[oi].1 {
                            if msg.additional.pop().is_some() || msg.answers.pop().is_some() || (msg.questions.len() > 1 && msg.questions.pop().is_some()) {
                                changed = true;
                            }
                        }
                        if !changed || budget == 0 {
                            break;
                        }
                        budget -= 1;
                        if still(&c) {
                            cur = c;
                            progress = true;
                        } else {
                            break;
                        }
                    }
                }
            }
        }
    }
    cur.minimised = true;
    if let Ok(Some(d)) = reproduces(&cur) {
        cur.detail = d;
    }
    cur
}

#[derive(Deserialize)]
struct KnownFinding {
    status: String,
    property: String,
    #[serde(default)]
    signature_prefix: String,
    #[serde(default)]
    what: String,
}

fn load_known(prop: &str) -> Vec<KnownFinding> {
    let Ok(s) = std::fs::read_to_string(&format!("{}/known_findings.json", verif_root())) else { return vec![] };
    let all: Vec<KnownFinding> = match serde_json::from_str(&s) {
        Ok(v) => v,
        Err(e) => {
            eprintln!("harness error: known_findings.json unreadable: {}", e);
            std::process::exit(2);
        }
    };
    all.into_iter().filter(|k| k.property == prop && k.status == "known" && !k.signature_prefix.is_empty()).collect()
}

fn sanitize(s: &str) -> String {
    let t: String = s.chars().map(|c| if c.is_ascii_alphanumeric() || c == '-' { c } else { '_' }).collect();
    t.chars().take(100).collect()
}

struct TierCfg {
    runs: u64,
    store_runs: u64,
}

fn tier_cfg(prop: &str, tier: &str) -> TierCfg {
    let thorough = tier == "thorough";
    let (runs, store) = match prop {
        "C13" => (if thorough { 900_000 } else { 24_000 }, if thorough { 3_000_000 } else { 80_000 }),
        "C14" => (if thorough { 400_000 } else { 20_000 }, 0),
        "C15" => (if thorough { 140_000 } else { 7_000 }, 0),
        "C16" => (if thorough { 400_000 } else { 14_000 }, 0),
        _ => (if thorough { 150_000 } else { 7_000 }, if thorough { 4_000_000 } else { 200_000 }),
    };
    TierCfg { runs, store_runs: store }
}

fn check(prop: &str, tier: &str, verif_seed: u64, runs_override: Option<u64>, jobs: usize) -> i32 {
    let mut cfg = tier_cfg(prop, tier);
    if let Some(r) = runs_override {
        cfg.store_runs = if cfg.store_runs > 0 { (cfg.store_runs * r / cfg.runs.max(1)).max(1) } else { 0 };
        cfg.runs = r;
    }
    println!("mdns-sim property={} tier={} VERIF_SEED={} system_runs={} store_histories={} jobs={}", prop, tier, verif_seed, cfg.runs, cfg.store_runs, jobs);
    let t0 = Instant::now();
    let exe = std::env::current_exe().expect("current_exe");
    let mut children = Vec::new();
    for j in 0..jobs as u64 {
        let count = cfg.runs / jobs as u64 + if j < cfg.runs % jobs as u64 { 1 } else { 0 };
        let scount = cfg.store_runs / jobs as u64 + if j < cfg.store_runs % jobs as u64 { 1 } else { 0 };
        let child = Command::new(&exe)
            .args(["worker", prop, &verif_seed.to_string(), &j.to_string(), &count.to_string(), &jobs.to_string(), &scount.to_string()])
            .stdout(Stdio::piped())
            .stderr(Stdio::inherit())
            .spawn()
            .expect("spawn worker");
        children.push(child);
    }
    let mut tally = Tally::default();
    let mut found: BTreeMap<String, Replay> = BTreeMap::new();
    let mut errors: Vec<String> = Vec::new();
    // drain every worker concurrently (a full pipe must never stall a worker)
    let (tx, rx) = std::sync::mpsc::channel::<(usize, Option<String>)>();
    let mut readers = Vec::new();
    for (ci, ch) in children.iter_mut().enumerate() {
        let out = ch.stdout.take().unwrap();
        let tx = tx.clone();
        readers.push(std::thread::spawn(move || {
            for line in BufReader::new(out).lines() {
                let Ok(line) = line else { break };
                let _ = tx.send((ci, Some(line)));
            }
            let _ = tx.send((ci, None));
        }));
    }
    drop(tx);
    let n_children = children.len();
    let mut got_tally = vec![false; n_children];
    let mut open = n_children;
    let limit = std::time::Duration::from_secs(if tier == "thorough" { 3 * 3600 } else { 900 });
    while open > 0 {
        let msg = match rx.recv_timeout(std::time::Duration::from_secs(5)) {
            Ok(m) => m,
            Err(std::sync::mpsc::RecvTimeoutError::Timeout) => {
                if t0.elapsed() > limit {
                    for ch in children.iter_mut() {
                        let _ = ch.kill();
                    }
                    errors.push(format!("workers exceeded the wall-clock limit of {:?} (simulator stuck?)", limit));
                    break;
                }
                continue;
            }
            Err(_) => break,
        };
        match msg {
            (_, None) => open -= 1,
            (ci, Some(line)) => match serde_json::from_str::<WorkerMsg>(&line) {
                Ok(WorkerMsg::Finding { run_index, prop: p, sig, detail, scenario, history }) => {
                    let rp = Replay { property: p, signature: sig.clone(), detail, verif_seed, run_index, minimised: false, kind: if history.is_some() { "store".into() } else { "system".into() }, scenario, history };
                    match found.get(&sig) {
                        Some(old) if (old.kind.as_str(), old.run_index) <= (rp.kind.as_str(), rp.run_index) => {}
                        _ => {
                            found.insert(sig, rp);
                        }
                    }
                }
                Ok(WorkerMsg::Tally(t)) => {
                    got_tally[ci] = true;
                    merge(&mut tally, t);
                }
                Ok(WorkerMsg::Error(e)) => errors.push(e),
                Err(e) => errors.push(format!("unreadable worker output: {} ({})", e, &line[..line.len().min(120)])),
            },
        }
    }
    for (ci, mut ch) in children.into_iter().enumerate() {
        let status = ch.wait().expect("wait");
        if !status.success() || !got_tally[ci] {
            errors.push(format!("worker {} exited abnormally: {:?}", ci, status));
        }
    }
    for r in readers {
        let _ = r.join();
    }
    let wall = t0.elapsed().as_secs_f64();
    if !errors.is_empty() {
        for e in errors.iter().take(10) {
            eprintln!("harness error: {}", e);
        }
        return 2;
    }

    let known = load_known(prop);
    let dir = PathBuf::from(format!("{}/replays/{}", verif_root(), prop));
    let _ = std::fs::create_dir_all(&dir);
    let mut violations = 0;
    let mut known_hits = 0;
    let mut lines = Vec::new();
    for (sig, rp) in &found {
        // a spinning scenario cannot be re-run in this process (its thread never ends)
        let min = if sig.starts_with("spin:") { rp.clone() } else { minimise(rp) };
        let path = dir.join(format!("{}.json", sanitize(sig)));
        std::fs::write(&path, serde_json::to_string_pretty(&min).unwrap()).expect("write replay");
        // fresh-process replay must reproduce before anything is reported
        let st = Command::new(&exe).args(["replay", path.to_str().unwrap(), "--quiet"]).stdout(Stdio::null()).status().expect("replay");
        if st.code() != Some(1) {
            eprintln!("harness error: replay {} does not reproduce {} in a fresh process (exit {:?})", path.display(), sig, st.code());
            return 2;
        }
        if let Some(k) = known.iter().find(|k| sig.starts_with(&k.signature_prefix)) {
            known_hits += 1;
            lines.push(format!("KNOWN-FINDING: property={} {} [{}] replay={}", prop, k.what, sig, path.display()));
        } else {
            violations += 1;
            lines.push(format!("VIOLATION property={} replay={}", prop, path.display()));
            lines.push(format!("  signature: {}", sig));
            lines.push(format!("  detail: {}", min.detail));
        }
    }

    // ---- evidence
    let distinct: HashSet<u64> = tally.nontrivial_fps.iter().copied().chain(tally.store_distinct.iter().copied()).collect();
    let states: HashSet<u64> = tally.model_states.iter().copied().collect();
    let evaluations = tally.runs + tally.store_histories;
    let rule = match prop {
        "C13" => "one evaluation = one simulated run (topology, application scripts, raw-peer queries, fault script, scheduler/hash/net seeds all derived from the run seed) or one store-level history; a run is non-trivial when at least one query was judged against the model state taken at the listener's read-acquire; distinct = distinct schedule fingerprints (hash of the ordered sequence of (thread, scheduling point, lock/socket/datagram id)) among non-trivial runs plus distinct store-history fingerprints",
        "C14" => "one evaluation = one simulated run in the hostile or chaos profile; non-trivial when at least one datagram was dequeued by a service listener; distinct = distinct schedule fingerprints among those",
        "C15" => "one evaluation = one simulated run; non-trivial when get_known_services was compared exactly with a non-empty reference cache or an on_discovery value was compared; distinct = distinct schedule fingerprints among those",
        "C16" => "one evaluation = one simulated run; non-trivial when at least one reported InstanceInformation was re-built in another insertion order and compared by Eq/Hash/HashSet, or a store dump was cross-checked against borrowed parses; distinct = distinct schedule fingerprints among those",
        _ => "one evaluation = one simulated run or one store-level history (add/re-add/remove/clear/advance/clock-jump/query); a run is non-trivial when a store dump was compared with the reference cache; distinct = distinct schedule fingerprints among non-trivial runs plus distinct store-history fingerprints",
    };
    let ev = serde_json::json!({
        "property_id": prop,
        "tier": if tier == "thorough" { "thorough" } else { "quick" },
        "seed": verif_seed,
        "level": "exploration",
        "wall_s": wall,
        "violations": violations,
        "coverage": {
            "evaluations": evaluations,
            "distinct_nontrivial": distinct.len(),
            "rule": rule,
            "samples": tally.samples,
            "simulated_runs": tally.runs,
            "simulated_runs_per_hour": (tally.runs as f64 / wall * 3600.0) as u64,
            "store_level_histories": tally.store_histories,
            "store_level_ops": tally.store_ops,
            "store_level_queries_compared": tally.store_queries,
            "store_level_expiry_boundary_hits": tally.store_boundary_hits,
            "simulated_time_s": (tally.sim_time_ns / 1_000_000_000) as u64,
            "scheduling_steps": tally.steps,
            "context_switches": tally.switches,
            "simulated_threads": tally.threads,
            "distinct_model_states": states.len(),
            "profiles": tally.profiles,
            "faults_fired": {
                "datagrams_sent": tally.sent, "delivered": tally.delivered, "dropped_loss": tally.dropped_loss,
                "dropped_partition": tally.dropped_partition, "dropped_rcvbuf_overflow": tally.dropped_overflow,
                "dropped_socket_closed": tally.dropped_closed, "duplicated": tally.duplicated, "delayed_reordered": tally.delayed,
                "payload_truncate": tally.payload_faults[0], "payload_bitflip": tally.payload_faults[1], "payload_byte_plus": tally.payload_faults[2],
                "payload_byte_minus": tally.payload_faults[3], "payload_zero_length": tally.payload_faults[4], "payload_garbage": tally.payload_faults[5],
                "send_syscall_errors": tally.send_errors, "recv_interrupted": tally.recv_interrupts, "recv_timeouts": tally.recv_timeouts,
                "oversleeps": tally.oversleeps, "node_crashes": tally.crashes, "clock_jumps": tally.clock_jumps, "node_stalls": tally.stalls,
                "partitions": tally.partitions, "lock_contention_blocks": tally.lock_blocks, "thread_preemptions_at_sync_points": tally.preemptions,
            },
            "oracle_probes": tally.ostats,
            "runs_hitting_step_limit": tally.step_limit_runs,
            "runs_cut_short_by_another_property": tally.cut_short_by_other_property,
            "known_findings_hit": known_hits,
            "components": {
                "real": ["simple_mdns::sync_discovery::{ServiceDiscovery, SimpleMdnsResponder, OneShotMdnsResolver} (real loops, locks, sleeps)", "ResourceRecordManager", "build_reply", "InstanceInformation", "simple_dns codec", "radix_trie", "std::sync::mpsc", "std RwLock poisoning"],
                "simulated": ["thread scheduling (baton passing, seeded)", "RwLock admission", "thread::sleep / Instant::now (virtual clock, per-node offsets)", "UDP multicast + unicast sockets with fault injection", "hash seeds (getrandom interposition)", "node crash/restart, stalls, clock jumps"],
                "stubs": ["socket_helper (simulated sockets with the same bind/join/time-out semantics)"],
                "tokio_variants": "simple_mdns::async_discovery::{ServiceDiscovery, SimpleMdnsResponder, OneShotMdnsResolver} run on about a third of the service nodes: real async bodies, every task a simulated thread driven by a minimal executor; tokio::sync::mpsc and tokio::select! are the real ones; net/time/RwLock/spawn are simulated (see oracle_probes.tokio_*)",
            },
        },
        "assumptions": [
            "code between two scheduling points runs atomically (all cross-thread state of simple-mdns is behind the RwLock, the sockets and an mpsc sender)",
            "reference model and refdns reader are trusted; exact comparisons only for intact datagrams from well-formed senders, deliberately relaxed (optional entries) for corrupted or hostile ones",
            "at the single instant now == expiry either answer is accepted",
            "the tokio variants run under a minimal simulated executor (tasks are simulated threads that yield only at awaits on sockets, timers, locks, channels), not under the tokio runtime",
        ],
    });
    let _ = std::fs::create_dir_all(format!("{}/evidence", verif_root()));
    std::fs::write(format!("{}/evidence/{}.json", verif_root(), prop), serde_json::to_string_pretty(&ev).unwrap()).expect("write evidence");
    for l in &lines {
        println!("{}", l);
    }
    println!("mdns-sim {}: {} runs + {} store histories, {} distinct non-trivial, {} model states, {} violation signature(s), {} known, {:.1}s ({:.0} runs/s)", prop, tally.runs, tally.store_histories, distinct.len(), states.len(), violations, known_hits, wall, tally.runs as f64 / wall);
    if violations > 0 {
        // a verified, replayable violation stands on its own (a spinning thread ends its worker's
        // batch early, so coverage is legitimately small then)
        return 1;
    }
    if distinct.len() < 20 {
        eprintln!("harness error: insufficient coverage ({} distinct non-trivial runs)", distinct.len());
        return 2;
    }
    0
}

fn merge(a: &mut Tally, b: Tally) {
    a.runs += b.runs;
    a.nontrivial_fps.extend(b.nontrivial_fps);
    a.model_states.extend(b.model_states);
    a.sim_time_ns += b.sim_time_ns;
    a.steps += b.steps;
    a.switches += b.switches;
    a.threads += b.threads;
    a.sent += b.sent;
    a.delivered += b.delivered;
    a.dropped_loss += b.dropped_loss;
    a.dropped_partition += b.dropped_partition;
    a.dropped_overflow += b.dropped_overflow;
    a.dropped_closed += b.dropped_closed;
    a.duplicated += b.duplicated;
    a.delayed += b.delayed;
    for i in 0..6 {
        a.payload_faults[i] += b.payload_faults[i];
    }
    a.send_errors += b.send_errors;
    a.recv_interrupts += b.recv_interrupts;
    a.recv_timeouts += b.recv_timeouts;
    a.oversleeps += b.oversleeps;
    a.crashes += b.crashes;
    a.clock_jumps += b.clock_jumps;
    a.stalls += b.stalls;
    a.lock_blocks += b.lock_blocks;
    a.preemptions += b.preemptions;
    a.partitions += b.partitions;
    a.step_limit_runs += b.step_limit_runs;
    a.cut_short_by_other_property += b.cut_short_by_other_property;
    for (k, v) in b.profiles {
        *a.profiles.entry(k).or_default() += v;
    }
    for (k, v) in b.ostats {
        *a.ostats.entry(k).or_default() += v;
    }
    if a.samples.len() < 4 {
        a.samples.extend(b.samples.into_iter().take(1));
    }
    a.store_histories += b.store_histories;
    a.store_ops += b.store_ops;
    a.store_queries += b.store_queries;
    a.store_boundary_hits += b.store_boundary_hits;
    a.store_distinct.extend(b.store_distinct);
}

fn replay(path: &str, quiet: bool, trace: bool) -> i32 {
    let s = match std::fs::read_to_string(path) {
        Ok(s) => s,
        Err(e) => {
            eprintln!("harness error: cannot read {}: {}", path, e);
            return 2;
        }
    };
    let rp: Replay = match serde_json::from_str(&s) {
        Ok(r) => r,
        Err(e) => {
            eprintln!("harness error: bad replay file: {}", e);
            return 2;
        }
    };
    if trace {
        if let Some(sc) = &rp.scenario {
            let out = runner::run(sc);
            for e in &out.res.trace {
                println!("#{} t={} lt={} tid={}({}) node={} {:?}", e.seq, e.t, e.lt, e.tid, out.res.thread_names[e.tid as usize], e.node as i64, e.kind);
            }
            for (i, m) in out.res.marks.iter().enumerate() {
                println!("mark {} = {}", i, m);
            }
            for p in &out.res.panics {
                println!("panic {:?}", p);
            }
            for o in &out.obs {
                println!("obs {:?}", o);
            }
            let an = analyse(sc, &out);
            for f in &an.findings {
                println!("finding {} {} :: {}", f.prop, f.sig, f.detail);
            }
        }
    }
    match reproduces(&rp) {
        Ok(Some(detail)) => {
            if !quiet {
                println!("  signature: {}", rp.signature);
                println!("  detail: {}", detail);
            }
            println!("VIOLATION property={} replay={}", rp.property, path);
            1
        }
        Ok(None) => {
            println!("not reproduced: signature {} absent", rp.signature);
            0
        }
        Err(e) => {
            eprintln!("harness error: {}", e);
            2
        }
    }
}

fn determinism(prop: &str, first: u64, runs: u64, verif_seed: u64) {
    // print one digest line per run: the full event log (every scheduling decision, every
    // datagram's bytes, every observation) hashed
    for i in first..first + runs {
        let seed = run_seed(verif_seed, prop, i);
        let sc = generate(seed, prop, profile_for(prop, i));
        let out = runner::run(&sc);
        let mut h = 0xcbf2_9ce4_8422_2325u64;
        let mut feed = |s: &str| {
            for b in s.as_bytes() {
                h ^= *b as u64;
                h = h.wrapping_mul(0x0000_0100_0000_01B3);
            }
        };
        for e in &out.res.trace {
            feed(&format!("{:?}", e));
        }
        for d in &out.res.dgrams {
            feed(&format!("{:?}", d));
        }
        for o in &out.obs {
            feed(&format!("{:?}", o));
        }
        let an = analyse(&sc, &out);
        for f in &an.findings {
            feed(&format!("{:?}", f));
        }
        println!("{} {} {:016x} events={} outcome={:?}", prop, i, h, out.res.trace.len(), out.res.outcome);
    }
}

fn main() {
    simrt::hashseed::ensure_linked();
    let args: Vec<String> = std::env::args().collect();
    if args.len() < 3 {
        eprintln!("usage: mdnssim check <C13|C14|C15|C16|C20> [--tier quick|thorough] [--seed N] [--runs N] [--jobs N] | replay <file> [--trace] | determinism <prop> <runs>");
        std::process::exit(2);
    }
    match args[1].as_str() {
        "worker" => {
            let prop = &args[2];
            let vs: u64 = args[3].parse().unwrap();
            let first: u64 = args[4].parse().unwrap();
            let count: u64 = args[5].parse().unwrap();
            let stride: u64 = args[6].parse().unwrap();
            let store_runs: u64 = args.get(7).and_then(|s| s.parse().ok()).unwrap_or(0);
            worker(prop, vs, first, count, stride, store_runs);
        }
        "replay" => {
            let quiet = args.iter().any(|a| a == "--quiet");
            let trace = args.iter().any(|a| a == "--trace");
            std::process::exit(replay(&args[2], quiet, trace));
        }
        "scenario" => {
            // developer aid: write the scenario of run <index> of <prop> as a replay file
            let idx: u64 = args[3].parse().unwrap();
            let vs: u64 = std::env::var("VERIF_SEED").ok().and_then(|s| s.parse().ok()).unwrap_or(1);
            let sc = generate(run_seed(vs, &args[2], idx), &args[2], profile_for(&args[2], idx));
            let rp = Replay { property: args[2].clone(), signature: args.get(4).cloned().unwrap_or_default(), detail: String::new(), verif_seed: vs, run_index: idx, minimised: false, kind: "system".into(), scenario: Some(sc), history: None };
            println!("{}", serde_json::to_string_pretty(&rp).unwrap());
        }
        "determinism" => {
            let runs: u64 = args[3].parse().unwrap();
            let first: u64 = args.get(4).and_then(|s| s.parse().ok()).unwrap_or(0);
            let vs: u64 = std::env::var("VERIF_SEED").ok().and_then(|s| s.parse().ok()).unwrap_or(1);
            determinism(&args[2], first, runs, vs);
        }
        "check" => {
            let prop = args[2].clone();
            if !["C13", "C14", "C15", "C16", "C20"].contains(&prop.as_str()) {
                eprintln!("mdnssim serves C13 C14 C15 C16 C20");
                std::process::exit(2);
            }
            let mut tier = std::env::var("VERIF_TIER").unwrap_or_else(|_| "quick".into());
            let mut seed: u64 = std::env::var("VERIF_SEED").ok().and_then(|s| s.parse().ok()).unwrap_or(1);
            let mut runs = None;
            let mut jobs: usize = std::thread::available_parallelism().map(|n| n.get()).unwrap_or(8).min(16);
            let mut i = 3;
            while i < args.len() {
                match args[i].as_str() {
                    "--tier" => { tier = args[i + 1].clone(); i += 1; }
                    "--seed" => { seed = args[i + 1].parse().expect("seed"); i += 1; }
                    "--runs" => { runs = Some(args[i + 1].parse().expect("runs")); i += 1; }
                    "--jobs" => { jobs = args[i + 1].parse().expect("jobs"); i += 1; }
                    _ => {}
                }
                i += 1;
            }
            std::process::exit(check(&prop, &tier, seed, runs, jobs));
        }
        _ => {
            eprintln!("unknown command");
            std::process::exit(2);
        }
    }
}

#[allow(dead_code)]
fn _unused(_: &Path) {}

/// Root of the verification tree: $VERIF_ROOT (set by ./check to its own directory) or /verif.
fn verif_root() -> String {
    std::env::var("VERIF_ROOT").unwrap_or_else(|_| "/verif".to_string())
}
