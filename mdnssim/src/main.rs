use simple_mdns::sync_discovery::ServiceDiscovery;
use simple_mdns::InstanceInformation;
use simrt::{ctl, SimConfig};
use std::time::Duration;

fn main() {
    simrt::hashseed::ensure_linked();
    let seed: u64 = std::env::args().nth(1).and_then(|s| s.parse().ok()).unwrap_or(1);
    let mut cfg = SimConfig::default();
    cfg.sched_seed = seed;
    cfg.hash_seed = seed;
    cfg.net_seed = seed;
    let t0 = std::time::Instant::now();
    let res = simrt::run(cfg, || {
        let a = ctl::on_node(0, || {
            ServiceDiscovery::new(
                InstanceInformation::new("a".into())
                    .with_socket_address("192.168.1.22:8090".parse().unwrap())
                    .with_attribute("k".into(), Some("v".into())),
                "_srv._tcp.local",
                60,
            )
            .unwrap()
        });
        ctl::sleep(Duration::from_millis(500));
        let b = ctl::on_node(1, || {
            ServiceDiscovery::new(
                InstanceInformation::new("b".into()).with_socket_address("192.168.1.23:8091".parse().unwrap()),
                "_srv._tcp.local",
                60,
            )
            .unwrap()
        });
        ctl::sleep(Duration::from_secs(2));
        let ka = ctl::on_node(0, || a.get_known_services());
        let kb = ctl::on_node(1, || b.get_known_services());
        ctl::mark(format!("a knows {:?}", ka));
        ctl::mark(format!("b knows {:?}", kb));
        ctl::sleep(Duration::from_secs(100));
        let ka = ctl::on_node(0, || a.get_known_services());
        ctl::mark(format!("later a knows {:?}", ka));
    });
    println!("outcome {:?} wall {:?} steps {} switches {} events {} dgrams {} end {}s fp {:x}", res.outcome, t0.elapsed(), res.stats.steps, res.stats.context_switches, res.trace.len(), res.dgrams.len(), res.end_time_ns as f64/1e9, res.fingerprint);
    for m in &res.marks { println!("MARK {}", m); }
    for p in &res.panics { println!("PANIC {:?}", p); }
    if std::env::var("DUMP").is_ok() { for e in &res.trace { println!("{:?}", e); } for d in &res.dgrams { println!("{:?}", d); } }
    println!("getrandom calls {}", simrt::hashseed::ensure_linked());
}
#[allow(dead_code)]
fn unused() {}
