//! Store-level histories: the real `ResourceRecordManager` and `build_reply` driven by one
//! simulated thread under the virtual clock, checked operation by operation against a
//! reference map. Thousands of histories per second; time advances land on and around the
//! expiry boundaries.

use std::collections::{BTreeMap, BTreeSet};
use std::panic::{catch_unwind, AssertUnwindSafe};
use std::sync::{Arc, Mutex};

use dnsgen::bridge;
use refdns::{is_subdomain_or_equal, name_from_str, name_to_string, t, Comp, Labels, MsgSpec, Rec, RecKey, F, Q};
use serde::{Deserialize, Serialize};
use simple_mdns::verif::{build_reply, DomainResourceFilter, ResourceRecordManager};
use simrt::rng::{mix, Rng};
use simrt::{ctl, SimConfig};

use crate::model::{expect_from_auth, judge_reply, Finding};
use crate::runner::record_key;
use crate::scenario::TTLS;

#[derive(Clone, Debug, PartialEq, Eq, Serialize, Deserialize)]
pub enum Op {
    AddAuth(Rec),
    AddCached(Rec),
    Remove(Rec),
    Clear,
    Advance(u64),
    /// filter: 0 authoritative(exact), 1 authoritative(+subdomains), 2 cached, 3 all
    Query { name: Labels, filter: u8 },
    Reply(MsgSpec),
}

#[derive(Clone, Debug, PartialEq, Eq, Serialize, Deserialize)]
pub struct History {
    pub seed: u64,
    pub ops: Vec<Op>,
}

pub struct Report {
    pub findings: Vec<Finding>,
    pub ops: u64,
    pub queries: u64,
    pub boundary_hits: u64,
    pub fingerprint: u64,
}

const LABELS: [&str; 12] = ["foo", "bar", "foobar", "_my", "_mysrv", "a", "b", "ab", "office", "printer", "a.b", "foo.bar"];

fn name(r: &mut Rng) -> Labels {
    match r.below(9) {
        8 => Vec::new(), // the root
        0 => name_from_str("printer.office.local"),
        1 => name_from_str("officeprinter.local"),
        2 => name_from_str("office.local"),
        _ => {
            let n = 1 + r.usize_below(3);
            (0..n).map(|_| r.pick(&LABELS).as_bytes().to_vec()).collect()
        }
    }
}

fn rec(r: &mut Rng, names: &[Labels]) -> Rec {
    let owner = names[r.usize_below(names.len())].clone();
    let (rtype, fields) = match r.below(9) {
        6 => (*r.pick(&[t::MB, t::MG, t::MR, t::NS, t::CNAME]), vec![F::Name(names[r.usize_below(names.len())].clone(), Comp::Must)]),
        7 => (t::NULL, vec![F::Bytes(vec![r.below(2) as u8])]),
        8 => (t::MX, vec![F::U16(r.below(2) as u16), F::Name(names[r.usize_below(names.len())].clone(), Comp::Must)]),
        0 | 1 => (t::A, vec![F::U32(0x7f00_0001 + r.below(2) as u32)]),
        2 => (t::AAAA, vec![F::U128(1 + r.below(2) as u128)]),
        3 => (t::SRV, vec![F::U16(0), F::U16(0), F::U16(80 + r.below(2) as u16), F::Name(names[r.usize_below(names.len())].clone(), Comp::Never)]),
        4 => (t::TXT, vec![F::Str(if r.chance(1, 2) { b"k=v".to_vec() } else { b"flag".to_vec() })]),
        _ => (t::PTR, vec![F::Name(names[r.usize_below(names.len())].clone(), Comp::Must)]),
    };
    Rec { owner, rtype, class: if r.chance(5, 6) { 1 } else { 3 }, cache_flush: r.chance(1, 5), ttl: *r.pick(&TTLS), fields }
}

pub fn generate(seed: u64, focus: &str) -> History {
    let mut r = Rng::new(mix(seed, 0x5707E));
    let names: Vec<Labels> = (0..4 + r.usize_below(3)).map(|_| name(&mut r)).collect();
    let n = 4 + r.usize_below(26);
    let mut ops = Vec::new();
    let mut added: Vec<Rec> = Vec::new();
    for _ in 0..n {
        let x = r.below(100);
        let op = if x < 18 {
            let mut rc = rec(&mut r, &names);
            rc.cache_flush = false;
            added.push(rc.clone());
            Op::AddAuth(rc)
        } else if x < 40 {
            let rc = if !added.is_empty() && r.chance(1, 3) {
                // re-add of an equal record with another TTL / flush bit
                let mut x = added[r.usize_below(added.len())].clone();
                x.ttl = *r.pick(&TTLS);
                x.cache_flush = r.chance(1, 4);
                x
            } else {
                rec(&mut r, &names)
            };
            added.push(rc.clone());
            Op::AddCached(rc)
        } else if x < 48 && !added.is_empty() {
            Op::Remove(added[r.usize_below(added.len())].clone())
        } else if x < 50 {
            Op::Clear
        } else if x < 68 {
            // boundary-biased time advance; resolved against the live cache at run time
            Op::Advance(match r.below(8) {
                0 => 0,
                1 => 1,
                2 => 999_999_999,
                3 => 1_000_000_000,
                4 => 1_000_000_001,
                5 => u64::MAX, // "to the next expiry boundary -1/0/+1", chosen by seed below
                6 => u64::MAX - 1,
                _ => r.below(200) * 1_000_000_000 + r.below(3),
            })
        } else if x < 88 || focus == "C20" {
            Op::Query { name: names[r.usize_below(names.len())].clone(), filter: r.below(4) as u8 }
        } else {
            let mut m = MsgSpec { id: r.next_u64() as u16, ..Default::default() };
            for _ in 0..1 + r.usize_below(2) {
                m.questions.push(Q {
                    name: names[r.usize_below(names.len())].clone(),
                    qtype: match r.below(6) {
                        0 => t::ANY,
                        1 => *r.pick(&[t::AXFR, t::IXFR, t::MAILA, t::MAILB]),
                        2 if !added.is_empty() => added[r.usize_below(added.len())].rtype,
                        _ => *r.pick(&[t::A, t::AAAA, t::SRV, t::TXT, t::PTR, t::NULL, t::MB, t::MX]),
                    },
                    qclass: if r.chance(1, 3) { 255 } else { *r.pick(&[1u16, 3]) },
                    unicast: r.chance(1, 3),
                });
            }
            Op::Reply(m)
        };
        ops.push(op);
    }
    if focus == "C13" {
        // C13 batches lean on replies
        for _ in 0..4 {
            let mut m = MsgSpec { id: r.next_u64() as u16, ..Default::default() };
            m.questions.push(Q { name: names[r.usize_below(names.len())].clone(), qtype: *r.pick(&[t::ANY, t::A, t::SRV]), qclass: 255, unicast: false });
            ops.push(Op::Reply(m));
        }
    }
    History { seed, ops }
}

#[derive(Clone, Debug)]
enum Kind {
    Auth(Vec<u32>),
    Cached { expires: u64 },
}

pub fn run(h: &History) -> Result<Report, String> {
    let h2 = h.clone();
    let result: Arc<Mutex<Option<Report>>> = Arc::new(Mutex::new(None));
    let r2 = result.clone();
    let mut cfg = SimConfig::default();
    cfg.sched_seed = h.seed;
    cfg.hash_seed = mix(h.seed, 7);
    cfg.step_jitter_ns = 0;
    let res = simrt::run(cfg, move || {
        let rep = run_inner(&h2);
        *r2.lock().unwrap() = Some(rep);
    });
    if let Some(p) = res.root_panic {
        // a panic of the real store under the harness' own calls is reported by run_inner via
        // catch_unwind; reaching this point means the harness itself failed
        return Err(format!("store driver panicked: {} at {}", p.message, p.location));
    }
    let taken = result.lock().unwrap().take();
    taken.ok_or_else(|| "store driver produced no report".to_string())
}

fn run_inner(h: &History) -> Report {
    let mut findings: Vec<Finding> = Vec::new();
    let mut model: BTreeMap<RecKey, Kind> = BTreeMap::new();
    // owner names under which something was stored since the last clear: a query that includes
    // subdomains only reaches them when an entry for the queried name itself exists (the
    // statement does not say what such a query returns otherwise, so that case is don't-care)
    let mut owners_present: BTreeSet<Labels> = BTreeSet::new();
    let mut store: ResourceRecordManager<'static> = ResourceRecordManager::new();
    let mut queries = 0u64;
    let mut boundary_hits = 0u64;
    let mut fp = 0xcbf2_9ce4_8422_2325u64;
    let mut mixfp = |x: u64| {
        fp = mix(fp, x);
    };
    let mut pick = Rng::new(mix(h.seed, 0xB0));
    for (i, op) in h.ops.iter().enumerate() {
        let now = ctl::now_ns();
        match op {
            Op::AddAuth(r) => {
                let rr = bridge::record(r);
                store.add_authoritative_resource(rr);
                owners_present.insert(r.owner.clone());
                match model.get_mut(&r.key()) {
                    Some(Kind::Auth(ttls)) => ttls.push(r.ttl),
                    _ => {
                        model.insert(r.key(), Kind::Auth(vec![r.ttl]));
                    }
                }
                mixfp(1);
            }
            Op::AddCached(r) => {
                let rr = bridge::record(r);
                store.add_cached_resource(rr);
                owners_present.insert(r.owner.clone());
                let secs: u64 = if r.cache_flush { 1 } else { r.ttl as u64 };
                if !matches!(model.get(&r.key()), Some(Kind::Auth(_))) {
                    model.insert(r.key(), Kind::Cached { expires: now.saturating_add(secs.saturating_mul(1_000_000_000)) });
                }
                mixfp(2 + secs);
            }
            Op::Remove(r) => {
                let rr = bridge::record(r);
                store.remove_resource_record(&rr);
                model.remove(&r.key());
                mixfp(3);
            }
            Op::Clear => {
                store.clear();
                model.clear();
                owners_present.clear();
                mixfp(4);
            }
            Op::Advance(d) => {
                let d = if *d >= u64::MAX - 1 {
                    // jump to an expiry boundary of a live cached record (-1 ns, exact, +1 ns)
                    let exps: Vec<u64> = model.values().filter_map(|k| if let Kind::Cached { expires } = k { if *expires > now { Some(*expires) } else { None } } else { None }).collect();
                    if exps.is_empty() {
                        1
                    } else {
                        let e = exps[pick.usize_below(exps.len())];
                        boundary_hits += 1;
                        (e - now).saturating_add(pick.below(3)).saturating_sub(1)
                    }
                } else {
                    *d
                };
                ctl::advance_ns(d.min(1u64 << 62));
                mixfp(5 + (d % 7));
            }
            Op::Query { name, filter } => {
                let f = match filter {
                    0 => DomainResourceFilter::authoritative(false),
                    1 => DomainResourceFilter::authoritative(true),
                    2 => DomainResourceFilter::cached(),
                    _ => DomainResourceFilter::all(),
                };
                let qn = bridge::name(name);
                let got: Result<Vec<Option<RecKey>>, _> = catch_unwind(AssertUnwindSafe(|| {
                    store.get_domain_resources(&qn, f).flatten().map(|r| record_key(r).map(|x| x.0)).collect()
                }));
                let Ok(got) = got else {
                    findings.push(Finding { prop: "C14", sig: "store-query-panic".into(), detail: format!("get_domain_resources({}) panicked", name_to_string(name)) });
                    continue;
                };
                queries += 1;
                let got_list: Vec<RecKey> = got.into_iter().flatten().collect();
                let got_set: BTreeSet<RecKey> = got_list.iter().cloned().collect();
                if got_set.len() != got_list.len() {
                    findings.push(Finding { prop: "C16", sig: "store-duplicate-key".into(), detail: format!("step {}: the store returns the same record twice", i) });
                }
                let subdomains = *filter != 0;
                let want_auth = *filter == 0 || *filter == 1 || *filter == 3;
                let want_cached = *filter == 2 || *filter == 3;
                let mut must: BTreeSet<RecKey> = BTreeSet::new();
                let mut maybe: BTreeSet<RecKey> = BTreeSet::new();
                for (k, kind) in &model {
                    let name_ok = if subdomains { is_subdomain_or_equal(&k.owner, name) } else { k.owner == *name };
                    if !name_ok {
                        continue;
                    }
                    let reachable = k.owner == *name || owners_present.contains(name);
                    match kind {
                        Kind::Auth(_) if want_auth => {
                            if reachable {
                                must.insert(k.clone());
                            } else {
                                maybe.insert(k.clone());
                            }
                        }
                        Kind::Cached { expires } if want_cached => {
                            if *expires > now && reachable {
                                must.insert(k.clone());
                            } else if *expires >= now {
                                maybe.insert(k.clone());
                            }
                        }
                        _ => {}
                    }
                }
                mixfp(100 + must.len() as u64 * 4 + *filter as u64);
                for k in must.difference(&got_set) {
                    let (sig, why) = match model.get(k) {
                        Some(Kind::Auth(_)) => ("authoritative-lost", "is registered as authoritative and was neither removed nor cleared"),
                        _ => ("live-record-missing", "was received and its TTL has not elapsed"),
                    };
                    findings.push(Finding { prop: "C20", sig: sig.into(), detail: format!("step {}: query {} filter {}: {} type {} {} but is not returned", i, name_to_string(name), filter, name_to_string(&k.owner), k.rtype, why) });
                }
                for k in got_set.iter() {
                    if must.contains(k) || maybe.contains(k) {
                        continue;
                    }
                    let name_ok = if subdomains { is_subdomain_or_equal(&k.owner, name) } else { k.owner == *name };
                    let (prop, sig, why): (&'static str, &str, String) = if !name_ok {
                        ("C13", "store-name-mismatch", format!("its owner is neither {} nor a label-wise subdomain of it", name_to_string(name)))
                    } else {
                        match model.get(k) {
                            Some(Kind::Auth(_)) => ("C20", "authoritative-returned-by-cache-query", "it is authoritative and the filter asked for cached records only".to_string()),
                            Some(Kind::Cached { expires }) if *expires < now => ("C20", "expired-returned", format!("its TTL elapsed {} ns ago", now - expires)),
                            Some(Kind::Cached { .. }) => ("C20", "cached-returned-as-authoritative", "it is a cached record and the filter asked for authoritative records only".to_string()),
                            None => ("C20", "removed-record-returned", "it was removed, cleared or never added".to_string()),
                        }
                    };
                    findings.push(Finding { prop, sig: sig.into(), detail: format!("step {}: query {} filter {} returns {} type {} although {}", i, name_to_string(name), filter, name_to_string(&k.owner), k.rtype, why) });
                }
            }
            Op::Reply(m) => {
                let bytes = refdns::encode(m, false);
                let Ok(qmsg) = refdns::decode(&bytes, true) else { continue };
                let auth: BTreeMap<RecKey, Vec<u32>> = model.iter().filter_map(|(k, v)| if let Kind::Auth(t) = v { Some((k.norm(), t.clone())) } else { None }).collect();
                let exp = expect_from_auth(&auth, &qmsg);
                let packet = bridge::packet(m, None);
                let got = catch_unwind(AssertUnwindSafe(|| build_reply(packet, &store).map(|(p, u)| (p.build_bytes_vec_compressed(), u))));
                let Ok(got) = got else {
                    findings.push(Finding { prop: "C14", sig: "build-reply-panic".into(), detail: format!("step {}: build_reply panicked", i) });
                    continue;
                };
                queries += 1;
                mixfp(200 + exp.must.len() as u64);
                match got {
                    None => {
                        if !exp.must.is_empty() {
                            findings.push(Finding { prop: "C13", sig: "no-reply".into(), detail: format!("step {}: {} registered record(s) match the query but build_reply produced nothing", i, exp.must.len()) });
                        }
                    }
                    Some((Ok(bytes), unicast)) => {
                        if exp.must.is_empty() && exp.may.is_empty() {
                            findings.push(Finding { prop: "C13", sig: "reply-when-nothing-matches".into(), detail: format!("step {}: a reply was produced although no registered record matches", i) });
                            continue;
                        }
                        if unicast != exp.unicast {
                            findings.push(Finding { prop: "C13", sig: if exp.unicast { "unicast-not-honoured".into() } else { "unicast-not-requested".into() }, detail: format!("step {}: build_reply says unicast={} but the questions asked {}", i, unicast, exp.unicast) });
                        }
                        match refdns::decode(&bytes, true) {
                            Ok(rep) => findings.extend(judge_reply(&format!("step {}", i), &exp, &qmsg, &rep)),
                            Err(e) => findings.push(Finding { prop: "C14", sig: "unparseable-reply".into(), detail: format!("step {}: {:?}", i, e) }),
                        }
                    }
                    Some((Err(e), _)) => findings.push(Finding { prop: "C14", sig: "reply-not-serialisable".into(), detail: format!("step {}: {:?}", i, e) }),
                }
            }
        }
    }
    findings.sort_by(|a, b| (a.prop, &a.sig).cmp(&(b.prop, &b.sig)));
    findings.dedup_by(|a, b| a.prop == b.prop && a.sig == b.sig);
    Report { findings, ops: h.ops.len() as u64, queries, boundary_hits, fingerprint: fp }
}
