//! Scenario = an explicit, serialisable value generated up front from one run seed: topology,
//! per-node application scripts, raw-peer traffic, fault script, knobs. The run executes that
//! value and nothing else draws randomness.

use refdns::{name_from_str, t, Comp, Labels, MsgSpec, Rec, F, Q};
use serde::{Deserialize, Serialize};
use simrt::rng::{mix, Rng};

#[derive(Clone, Copy, Debug, PartialEq, Eq, Serialize, Deserialize)]
pub enum Profile {
    /// no faults: exact oracles
    Clean,
    /// drop / duplicate / delay / reorder / partition
    Lossy,
    /// payload corruption + hostile raw peers
    Hostile,
    /// everything, incl. crash/restart, clock jumps, stalls, syscall errors
    Chaos,
}

#[derive(Clone, Debug, PartialEq, Eq, Serialize, Deserialize)]
pub struct Knobs {
    pub sched_seed: u64,
    pub hash_seed: u64,
    pub net_seed: u64,
    pub step_jitter_ns: u64,
    pub base_latency_ns: u64,
    pub jitter_ns: u64,
    pub drop_ppm: u32,
    pub dup_ppm: u32,
    pub corrupt_ppm: u32,
    pub corrupt_kinds: u32,
    pub delay_ppm: u32,
    pub delay_max_ns: u64,
    pub send_err_ppm: u32,
    pub recv_intr_ppm: u32,
    pub oversleep_max_ns: u64,
    pub rcvbuf: usize,
    #[serde(default)]
    pub sched_policy: u8,
    #[serde(default)]
    pub preempt_ppm: u32,
    #[serde(default)]
    pub preempt_max_ns: u64,
}

#[derive(Clone, Debug, PartialEq, Eq, Serialize, Deserialize)]
pub struct InstSpec {
    pub name: String,
    pub ips: Vec<String>,
    pub ports: Vec<u16>,
    /// (key, value) — value None = boolean attribute
    pub attrs: Vec<(String, Option<String>)>,
}

#[derive(Clone, Debug, PartialEq, Eq, Serialize, Deserialize)]
pub enum NodeKind {
    /// `asyncv`: run the tokio variant (simple_mdns::async_discovery) instead of the sync one
    Discovery { service: String, instance: InstSpec, ttl: u32, channel: bool, #[serde(default)] asyncv: bool },
    Responder { ttl: u32, #[serde(default)] asyncv: bool },
    Resolver { #[serde(default)] asyncv: bool },
    RawPeer { port: Option<u16>, joined: bool },
}

#[derive(Clone, Debug, PartialEq, Eq, Serialize, Deserialize)]
pub enum AppOp {
    // responder
    AddResource(Rec),
    RemoveResource(Rec),
    Clear,
    // discovery
    GetKnown,
    /// the application drops the receiving end of its on_discovery channel
    DropChannel,
    Announce(bool),
    RemoveFromDiscovery,
    DumpStore,
    // resolver
    QueryAddress(String),
    QueryAddressPort(String),
    SetTimeoutMs(u64),
    // raw peer
    /// well-formed message built with refdns; `exact` = simple-dns is known to accept it
    SendMsg { msg: MsgSpec, compress: bool, unicast_to: Option<u32>, exact: bool },
    SendRaw { bytes: Vec<u8>, unicast_to: Option<u32> },
    /// drain the raw peer's socket (observations only)
    Drain,
}

#[derive(Clone, Debug, PartialEq, Eq, Serialize, Deserialize)]
pub struct NodeSpec {
    pub kind: NodeKind,
    pub start_ms: u64,
    pub script: Vec<(u64, AppOp)>,
}

#[derive(Clone, Debug, PartialEq, Eq, Serialize, Deserialize)]
pub enum RootStep {
    Partition { nodes: Vec<u32> },
    Heal,
    Crash { node: u32 },
    Restart { node: u32 },
    ClockJump { node: u32, ms: u64 },
    Stall { node: u32, ms: u64 },
}

#[derive(Clone, Debug, PartialEq, Eq, Serialize, Deserialize)]
pub struct Scenario {
    pub seed: u64,
    pub focus: String,
    pub profile: Profile,
    pub knobs: Knobs,
    pub nodes: Vec<NodeSpec>,
    pub root: Vec<(u64, RootStep)>,
    pub duration_ms: u64,
    pub probe: bool,
    pub max_steps: u64,
    /// run the whole scenario over IPv6 (ff02::fb) instead of IPv4
    #[serde(default)]
    pub v6: bool,
}

// ------------------------------------------------------------------ generation

pub const SERVICES: [&str; 4] = ["_srv._tcp.local", "_srvx._tcp.local", "x._srv._tcp.local", "_s._udp.local"];
const INST_NAMES: [&str; 12] = ["a", "b", "ab", "a-b", "x", "srv1", "printer", "office", "officeprinter", "ba", "n0", "z9"];
/// label alphabet chosen to collide under concatenation and prefixing
const C13_LABELS: [&str; 16] = ["foo", "bar", "foobar", "_my", "_mysrv", "a", "b", "ab", "ba", "office", "printer", "officeprinter", "local", "_tcp", "a.b", "foo.bar"];
pub const TTLS: [u32; 8] = [0, 1, 2, 59, 60, 120, 4500, u32::MAX];

fn knobs(r: &mut Rng, profile: Profile, seed: u64) -> Knobs {
    let mut k = Knobs {
        sched_seed: mix(seed, 1),
        hash_seed: mix(seed, 2),
        net_seed: mix(seed, 3),
        step_jitter_ns: *r.pick(&[0u64, 1_000, 20_000, 200_000]),
        base_latency_ns: *r.pick(&[50_000u64, 200_000, 1_000_000, 20_000_000]),
        jitter_ns: *r.pick(&[0u64, 100_000, 1_000_000, 50_000_000]),
        drop_ppm: 0,
        dup_ppm: 0,
        corrupt_ppm: 0,
        corrupt_kinds: 0,
        delay_ppm: 0,
        delay_max_ns: 0,
        send_err_ppm: 0,
        recv_intr_ppm: 0,
        oversleep_max_ns: 0,
        rcvbuf: 256,
        preempt_ppm: 0,
        preempt_max_ns: 0,
        sched_policy: *r.pick(&[0u8, 0, 1, 2]),
    };
    let some = |r: &mut Rng, v: &[u32]| if r.chance(2, 3) { *r.pick(v) } else { 0 };
    match profile {
        Profile::Clean => {}
        Profile::Lossy => {
            k.drop_ppm = some(r, &[20_000, 100_000, 300_000]);
            k.dup_ppm = some(r, &[20_000, 150_000]);
            k.delay_ppm = some(r, &[50_000, 300_000]);
            k.delay_max_ns = *r.pick(&[5_000_000u64, 500_000_000, 3_000_000_000]);
            k.oversleep_max_ns = *r.pick(&[0u64, 2_000_000]);
            k.preempt_ppm = some(r, &[2_000, 30_000]);
            k.preempt_max_ns = *r.pick(&[20_000_000u64, 1_500_000_000, 3_000_000_000]);
        }
        Profile::Hostile => {
            k.corrupt_ppm = some(r, &[50_000, 300_000, 800_000]);
            // swarm: a random subset of payload fault kinds
            k.corrupt_kinds = (r.below(63) + 1) as u32;
            k.dup_ppm = some(r, &[50_000]);
        }
        Profile::Chaos => {
            k.drop_ppm = some(r, &[20_000, 100_000]);
            k.dup_ppm = some(r, &[20_000, 100_000]);
            k.delay_ppm = some(r, &[50_000, 300_000]);
            k.delay_max_ns = *r.pick(&[5_000_000u64, 500_000_000]);
            k.corrupt_ppm = some(r, &[20_000, 200_000]);
            k.corrupt_kinds = (r.below(63) + 1) as u32;
            k.send_err_ppm = some(r, &[10_000, 100_000]);
            k.recv_intr_ppm = some(r, &[10_000, 100_000]);
            k.oversleep_max_ns = *r.pick(&[0u64, 2_000_000, 50_000_000]);
            k.rcvbuf = *r.pick(&[2usize, 8, 256]);
            k.preempt_ppm = some(r, &[2_000, 30_000]);
            k.preempt_max_ns = *r.pick(&[20_000_000u64, 1_500_000_000, 3_000_000_000]);
        }
    }
    k
}

fn inst(r: &mut Rng, used: &mut Vec<String>) -> InstSpec {
    let mut name;
    loop {
        name = r.pick(&INST_NAMES).to_string();
        if !used.contains(&name) {
            break;
        }
    }
    used.push(name.clone());
    let nip = r.usize_below(5);
    let mut ips = Vec::new();
    for _ in 0..nip {
        let ip = if r.chance(1, 6) {
            // addresses with a special reading: IPv4-mapped / -compatible / NAT64 forms of IPv6,
            // unspecified, loopback, broadcast, link-local, multicast, documentation
            (*r.pick(&[
                "::ffff:192.168.1.5", "::ffff:10.0.0.7", "::192.168.1.5", "64:ff9b::c0a8:105", "::", "::1", "0.0.0.0", "255.255.255.255",
                "127.0.0.1", "169.254.7.9", "224.0.0.251", "ff02::fb", "2001:db8::1", "fe80::1", "192.168.1.5",
            ]))
            .to_string()
        } else if r.chance(2, 3) {
            format!("192.168.{}.{}", r.below(3), 1 + r.below(250))
        } else {
            format!("fe80::{:x}:{:x}", r.below(65536), 1 + r.below(65535))
        };
        if !ips.contains(&ip) {
            ips.push(ip);
        }
    }
    let mut ports = Vec::new();
    for _ in 0..r.usize_below(4) {
        let p = *r.pick(&[80u16, 443, 8080, 8090, 1, 65535, 5353]);
        if !ports.contains(&p) {
            ports.push(p);
        }
    }
    let mut attrs: Vec<(String, Option<String>)> = Vec::new();
    let keys = ["k", "version", "path", "flag", "e", "ünï", "a b"];
    for _ in 0..r.usize_below(4) {
        let k = r.pick(&keys).to_string();
        if attrs.iter().any(|(kk, _)| *kk == k) {
            continue;
        }
        let v = match r.below(4) {
            0 => None,
            1 => Some(String::new()),
            2 => Some("v=1;x".to_string()),
            _ => Some(format!("val{}é", r.below(100))),
        };
        attrs.push((k, v));
    }
    InstSpec { name, ips, ports, attrs }
}

pub fn labels_to_string(n: &Labels) -> String {
    n.iter().map(|l| String::from_utf8_lossy(l).to_string()).collect::<Vec<_>>().join(".")
}

fn c13_name(r: &mut Rng) -> Labels {
    let n = 1 + r.usize_below(4);
    (0..n).map(|_| r.pick(&C13_LABELS).as_bytes().to_vec()).collect()
}

/// a record for responder stores over the colliding alphabet
fn store_record(r: &mut Rng, owners: &[Labels], ttl: u32) -> Rec {
    let owner = owners[r.usize_below(owners.len())].clone();
    let ty = match r.below(10) {
        0..=2 => *r.pick(&[t::A, t::AAAA]),
        3..=4 => t::SRV,
        5 => t::TXT,
        6 => t::PTR,
        _ => dnsgen::gen::any_rtype(r),
    };
    let sz = dnsgen::gen::Sizes { blob_max: 24, txt_strings_max: 3, txt_string_max: 20 };
    let mut rec = dnsgen::gen::record(r, owner, ty, owners, &sz);
    if rec.fields.is_empty() {
        rec.fields = dnsgen::gen::rdata_fields(r, ty, owners, &sz);
    }
    rec.ttl = ttl;
    rec.cache_flush = false;
    rec.class = if r.chance(4, 5) { 1 } else { *r.pick(&dnsgen::gen::CLASSES) };
    rec
}

fn query_for(r: &mut Rng, id: u16, names: &[Labels]) -> MsgSpec {
    let nq = 1 + r.usize_below(3);
    // header bits a querier may set and a responder has to ignore (RFC 6762 §18: TC announces
    // more known answers, AA/RD/RA/AD/CD are ignored on reception); opcode and rcode stay 0
    let mut flags = 0u16;
    if r.chance(1, 5) {
        for b in [0x0400u16, 0x0200, 0x0100, 0x0080, 0x0020, 0x0010] {
            if r.chance(1, 3) {
                flags |= b;
            }
        }
    }
    let nq = if r.chance(1, 20) { 4 + r.usize_below(9) } else { nq };
    let mut m = MsgSpec { id, flags, ..Default::default() };
    for _ in 0..nq {
        let qtype = match r.below(10) {
            0..=1 => t::ANY,
            2 => *r.pick(&[t::IXFR, t::AXFR, t::MAILB, t::MAILA, t::NULL]),
            3..=5 => *r.pick(&[t::A, t::AAAA, t::SRV, t::TXT, t::PTR]),
            _ => *r.pick(&dnsgen::gen::TYPED),
        };
        m.questions.push(Q {
            name: names[r.usize_below(names.len())].clone(),
            qtype,
            qclass: if r.chance(1, 3) { 255 } else if r.chance(4, 5) { 1 } else { *r.pick(&dnsgen::gen::CLASSES) },
            unicast: r.chance(1, 3),
        });
    }
    m
}

/// Records a peer could announce for an instance (refdns form).
pub fn instance_records(service: &Labels, i: &InstSpec, ttl: u32, flush: bool) -> Vec<Rec> {
    let mut owner = vec![i.name.as_bytes().to_vec()];
    owner.extend(service.iter().cloned());
    let mut v = Vec::new();
    for ip in &i.ips {
        match ip.parse::<std::net::IpAddr>().unwrap() {
            std::net::IpAddr::V4(a) => v.push(Rec { owner: owner.clone(), rtype: t::A, class: 1, cache_flush: flush, ttl, fields: vec![F::U32(u32::from(a))] }),
            std::net::IpAddr::V6(a) => v.push(Rec { owner: owner.clone(), rtype: t::AAAA, class: 1, cache_flush: flush, ttl, fields: vec![F::U128(u128::from(a))] }),
        }
    }
    for p in &i.ports {
        v.push(Rec {
            owner: owner.clone(),
            rtype: t::SRV,
            class: 1,
            cache_flush: flush,
            ttl,
            fields: vec![F::U16(0), F::U16(0), F::U16(*p), F::Name(owner.clone(), Comp::Never)],
        });
    }
    let mut strs: Vec<F> = i
        .attrs
        .iter()
        .map(|(k, val)| match val {
            Some(x) => F::Str(format!("{}={}", k, x).into_bytes()),
            None => F::Str(k.clone().into_bytes()),
        })
        .collect();
    if strs.is_empty() {
        strs.push(F::Str(vec![]));
    }
    v.push(Rec { owner, rtype: t::TXT, class: 1, cache_flush: flush, ttl, fields: strs });
    v
}

fn hostile_name(r: &mut Rng, under: &Labels) -> Labels {
    let l: Vec<u8> = match r.below(11) {
        // labels that end inside a multi-byte UTF-8 sequence, or hold an over-long / surrogate form
        8 => [b"caf".as_slice(), *r.pick(&[[0xc3u8].as_slice(), [0xe2, 0x82].as_slice(), [0xf0, 0x9f, 0x98].as_slice()])].concat(),
        9 => r.pick(&[[0xc0u8, 0xaf].as_slice(), [0xed, 0xa0, 0x80].as_slice(), [0xf4, 0x90, 0x80, 0x80].as_slice(), [b'a', 0xe2, 0x28, 0xa1].as_slice()]).to_vec(),
        10 => b"tab\\there\\".to_vec(),
        0 => vec![0xff, 0xfe, 0x80],
        1 => b"a.b".to_vec(),
        2 => vec![0],
        3 => b"back\\slash".to_vec(),
        4 => vec![b'x'; 63],
        5 => "ünï".as_bytes().to_vec(),
        6 => vec![0xC0, 0x0C],
        _ => b"plain".to_vec(),
    };
    let mut n = vec![l];
    if r.chance(1, 4) {
        n.insert(0, vec![b'y'; 1 + r.usize_below(60)]);
    }
    n.extend(under.iter().cloned());
    while refdns::name_wire_len(&n) > 255 {
        n.remove(0);
    }
    n
}

/// Keep the record length-consistent but make an inner, length-prefixed value one or two bytes
/// longer or shorter than its meaning allows (an SVCB `mandatory` list of odd length, a 5-byte
/// ipv4hint, a 33-byte NSEC bitmap, an empty key blob …): what a parser that validates inner
/// structure with indexing rather than with checked reads trips over.
fn odd_inner_lengths(r: &mut Rng, rec: &mut Rec) {
    let idx: Vec<usize> = (1..rec.fields.len())
        .filter(|&i| match (&rec.fields[i - 1], &rec.fields[i]) {
            (F::U16(n), F::Bytes(b)) => *n as usize == b.len(),
            (F::U8(n), F::Bytes(b)) => *n as usize == b.len(),
            _ => false,
        })
        .collect();
    if idx.is_empty() {
        return;
    }
    let i = idx[r.usize_below(idx.len())];
    let F::Bytes(mut b) = rec.fields[i].clone() else { return };
    match r.below(4) {
        0 => b.push(r.next_u64() as u8),
        1 => {
            b.pop();
        }
        2 => b.clear(),
        _ => b.extend_from_slice(&[0, 1, 0]),
    }
    let wide = matches!(rec.fields[i - 1], F::U16(_));
    if !wide && b.len() > 255 {
        b.truncate(255);
    }
    rec.fields[i - 1] = if wide { F::U16(b.len() as u16) } else { F::U8(b.len() as u8) };
    rec.fields[i] = F::Bytes(b);
}

/// A second wire-valid encoding that says "the same thing" as `rec` and that an implementation
/// may or may not regard as equal: an NSEC type bitmap padded with trailing zero octets, a TXT
/// record with one more empty string. Whatever equality decides, hashing has to agree with it.
fn encoding_twin(rec: &Rec) -> Option<Rec> {
    let mut tw = rec.clone();
    match rec.rtype {
        t::NSEC => {
            // fields: next name, then (window, length, bitmap)*
            let n = tw.fields.len();
            if n < 4 {
                return None;
            }
            let (F::U8(len), F::Bytes(bm)) = (tw.fields[n - 2].clone(), tw.fields[n - 1].clone()) else { return None };
            if len as usize != bm.len() || bm.len() + 2 > 32 {
                return None;
            }
            let mut bm2 = bm;
            bm2.extend_from_slice(&[0, 0]);
            tw.fields[n - 2] = F::U8(bm2.len() as u8);
            tw.fields[n - 1] = F::Bytes(bm2);
            Some(tw)
        }
        t::TXT => {
            tw.fields.push(F::Str(Vec::new()));
            Some(tw)
        }
        _ => None,
    }
}

/// An EDNS(0) OPT pseudo-record as real mDNS peers append it (RFC 6891; Apple's owner option):
/// root owner, CLASS = UDP payload size, TTL = extended RCODE / version / flags. The hostile
/// variants put it under the watched service, repeat it, or let an option length overrun.
fn opt_rec(r: &mut Rng, hostile: bool, svc: &Labels) -> Rec {
    let mut rdata = Vec::new();
    for _ in 0..r.usize_below(3) {
        let code = *r.pick(&[4u16, 10, 12, 65001]);
        let n = r.usize_below(20);
        rdata.extend_from_slice(&code.to_be_bytes());
        rdata.extend_from_slice(&(n as u16).to_be_bytes());
        rdata.extend(r.bytes(n));
    }
    let mut owner: Labels = Vec::new();
    let mut ttl = *r.pick(&[0u32, 0x0000_8000, 0x0100_0000, 0x0001_0000]);
    if hostile {
        match r.below(4) {
            0 => {
                // option length runs past RDLENGTH
                rdata.extend_from_slice(&[0, 4, 0, 200, 1, 2, 3]);
            }
            1 => {
                owner = vec![b"opt".to_vec()];
                owner.extend(svc.iter().cloned());
            }
            2 => ttl = r.next_u64() as u32,
            _ => rdata.truncate(rdata.len().saturating_sub(1 + r.usize_below(3))),
        }
    }
    let size = *r.pick(&[0u16, 512, 1440, 4096, 0xffff]);
    Rec { owner, rtype: t::OPT, class: size & 0x7fff, cache_flush: size & 0x8000 != 0, ttl, fields: vec![F::Bytes(rdata)] }
}

/// Compression-pointer mazes: 2-byte pointer values planted where no name is parsed in place
/// (the id field, the content of a label, opaque RDATA), pointing at one another at random —
/// cycles and forward hops included — and a name that enters the maze from above. A decoder
/// that bounds its walk by anything other than "every hop goes strictly backwards" (or a hop
/// count) loops for ever on some of these.
fn pointer_maze(r: &mut Rng) -> Vec<u8> {
    let response = r.chance(1, 2);
    let mut v: Vec<u8> = vec![0, 0, if response { 0x84 } else { 0 }, 0, 0, 0, 0, 0, 0, 0, 0, 0];
    let ptr = |to: usize| [0xC0 | ((to >> 8) as u8 & 0x3f), to as u8];
    match r.below(3) {
        0 => {
            // the id reads as a pointer; the first name points at it
            let t = *r.pick(&[0usize, 0, 2, 12]);
            v[0..2].copy_from_slice(&ptr(t));
            v[5] = 1; // one question
            v.extend_from_slice(&ptr(0));
            v.extend_from_slice(&[0, 12, 0, 1]);
        }
        1 => {
            // a label full of pointers, then a second name pointing into the label
            let k = 1 + r.usize_below(6);
            v[5] = 2;
            let base = v.len() + 1;
            v.push((2 * k) as u8);
            for _ in 0..k {
                let to = base + 2 * r.usize_below(k);
                v.extend_from_slice(&ptr(to));
            }
            v.push(0);
            v.extend_from_slice(&[0, 12, 0, 1]);
            v.extend_from_slice(&ptr(base + 2 * r.usize_below(k)));
            v.extend_from_slice(&[0, 12, 0, 1]);
        }
        _ => {
            // opaque RDATA full of pointers, then a record whose owner points into it
            let k = 1 + r.usize_below(6);
            v[2] = 0x84;
            v[7] = 2; // two answers
            v.extend_from_slice(&[1, b'a', 0, 0, 16, 0, 1, 0, 0, 0, 60, 0, (2 * k + 1) as u8, (2 * k) as u8]);
            let base = v.len();
            for _ in 0..k {
                let to = if r.chance(1, 4) { r.usize_below(base) } else { base + 2 * r.usize_below(k) };
                v.extend_from_slice(&ptr(to));
            }
            v.extend_from_slice(&ptr(base + 2 * r.usize_below(k)));
            v.extend_from_slice(&[0, 1, 0, 1, 0, 0, 0, 60, 0, 4, 10, 0, 0, 1]);
        }
    }
    v
}

fn garbage(r: &mut Rng) -> Vec<u8> {
    match r.below(10) {
        8 | 9 => pointer_maze(r),
        0 => vec![],
        1 => {
            let n = 1 + r.usize_below(11);
            r.bytes(n)
        }
        2 => {
            // valid header, absurd counts
            let mut v = vec![0u8; 12];
            v[0] = r.next_u64() as u8;
            v[2] = if r.chance(1, 2) { 0x84 } else { 0 };
            for b in v[4..12].iter_mut() {
                *b = 0xff;
            }
            v
        }
        3 => {
            let n = r.usize_below(9001);
            r.bytes(n)
        }
        4 => {
            // header + self-pointing name
            let mut v = vec![0, 1, 0, 0, 0, 1, 0, 0, 0, 0, 0, 0];
            v.extend_from_slice(&[0xC0, 0x0C, 0, 1, 0, 1]);
            v
        }
        5 => {
            // response with one answer whose RDLENGTH overruns
            let mut v = vec![0, 1, 0x84, 0, 0, 0, 0, 1, 0, 0, 0, 0];
            v.extend_from_slice(&[1, b'a', 0, 0, 16, 0, 1, 0, 0, 0, 9, 0xff, 0xff, 3, b'a', b'b', b'c']);
            v
        }
        _ => {
            let n = 12 + r.usize_below(80);
            let mut v = r.bytes(n);
            v[2] &= 0x87;
            v[3] &= 0x8f; // keep Z clear so it gets past the header sometimes
            v[4] = 0;
            v[5] = (r.below(3)) as u8;
            v[6] = 0;
            v[7] = (r.below(3)) as u8;
            v[8] = 0;
            v[9] = 0;
            v[10] = 0;
            v[11] = (r.below(2)) as u8;
            v
        }
    }
}

pub fn generate(seed: u64, focus: &str, profile: Profile) -> Scenario {
    let mut r = Rng::new(mix(seed, 0x5CE4_A210));
    let kn = knobs(&mut r, profile, seed);
    let hostile = matches!(profile, Profile::Hostile | Profile::Chaos);
    let mut nodes: Vec<NodeSpec> = Vec::new();
    let mut root: Vec<(u64, RootStep)> = Vec::new();
    let long_run = matches!(focus, "C20" | "C15") && r.chance(1, 6);
    let duration_ms: u64 = if long_run { *r.pick(&[130_000u64, 130_000, 5_000_000]) } else { *r.pick(&[3_000u64, 8_000, 20_000, 70_000]) };
    let t_in = |r: &mut Rng, lo: u64, hi: u64| lo + r.below((hi - lo).max(1));

    // ---- topology
    let n_disc = match focus {
        "C13" => r.usize_below(2),
        "C14" => 1 + r.usize_below(2),
        _ if duration_ms > 1_000_000 => 2 + r.usize_below(2),
        _ => 2 + r.usize_below(3),
    };
    let n_resp = match focus {
        "C13" => 1 + r.usize_below(2),
        "C14" => 1 + r.usize_below(2),
        _ => r.usize_below(2),
    };
    let services: Vec<&str> = {
        let a = *r.pick(&SERVICES);
        let b = *r.pick(&SERVICES);
        if r.chance(1, 2) { vec![a] } else { vec![a, b] }
    };
    let mut used_names = Vec::new();
    let ttl_choices: &[u32] = if focus == "C20" || long_run { &[1, 2, 59, 60, 120, 4500] } else { &[2, 60, 120, 4500] };
    for _ in 0..n_disc {
        let service = r.pick(&services).to_string();
        let ttl = *r.pick(ttl_choices);
        let spec = inst(&mut r, &mut used_names);
        let mut script = Vec::new();
        for _ in 0..r.usize_below(8) {
            let at = t_in(&mut r, 0, duration_ms);
            let op = match r.below(12) {
                0..=5 => AppOp::GetKnown,
                6 => AppOp::Announce(false),
                7 => AppOp::Announce(true),
                8 => AppOp::RemoveFromDiscovery,
                9 => AppOp::DropChannel,
                _ => AppOp::DumpStore,
            };
            script.push((at, op));
        }
        script.push((duration_ms, AppOp::GetKnown));
        script.push((duration_ms, AppOp::DumpStore));
        script.sort_by_key(|x| x.0);
        nodes.push(NodeSpec {
            kind: NodeKind::Discovery { service, instance: spec, ttl, channel: r.chance(1, 2), asyncv: r.chance(1, 3) },
            start_ms: t_in(&mut r, 0, (duration_ms / 3).max(1)),
            script,
        });
    }

    // owner alphabet for responder stores and queries
    let mut owners: Vec<Labels> = (0..6).map(|_| c13_name(&mut r)).collect();
    for s in &services {
        owners.push(name_from_str(s));
    }
    if r.chance(1, 6) {
        // the root name: every other owner is a subdomain of it
        owners.push(Vec::new());
    }
    if r.chance(1, 2) {
        owners.push(name_from_str("printer.office.local"));
        owners.push(name_from_str("officeprinter.local"));
    }
    let mut resp_records: Vec<Vec<Rec>> = Vec::new();
    for _ in 0..n_resp {
        let ttl = *r.pick(&[0u32, 10, 120]);
        let mut script = Vec::new();
        let mut mine: Vec<Rec> = Vec::new();
        let n_ops = 3 + r.usize_below(if focus == "C13" { 22 } else { 8 });
        for _ in 0..n_ops {
            let at = t_in(&mut r, 0, duration_ms);
            let op = match r.below(10) {
                0..=5 => {
                    let rec = if !mine.is_empty() && r.chance(1, 6) {
                        // re-add an equal record with another TTL
                        let mut x = mine[r.usize_below(mine.len())].clone();
                        x.ttl = *r.pick(&TTLS);
                        x
                    } else {
                        store_record(&mut r, &owners, ttl)
                    };
                    mine.push(rec.clone());
                    AppOp::AddResource(rec)
                }
                6..=8 if !mine.is_empty() => AppOp::RemoveResource(mine[r.usize_below(mine.len())].clone()),
                9 => AppOp::Clear,
                _ => AppOp::AddResource({
                    let rec = store_record(&mut r, &owners, ttl);
                    mine.push(rec.clone());
                    rec
                }),
            };
            script.push((at, op));
        }
        for _ in 0..r.usize_below(3) {
            script.push((t_in(&mut r, 0, duration_ms), AppOp::DumpStore));
        }
        script.push((duration_ms, AppOp::DumpStore));
        script.sort_by_key(|x| x.0);
        // bias: most stores are populated early
        if r.chance(2, 3) {
            for (i, s) in script.iter_mut().enumerate() {
                if i < 6 {
                    s.0 = s.0.min(200);
                }
            }
            script.sort_by_key(|x| x.0);
        }
        resp_records.push(mine);
        nodes.push(NodeSpec { kind: NodeKind::Responder { ttl, asyncv: r.chance(1, 3) }, start_ms: t_in(&mut r, 0, 100), script });
    }

    // ---- one-shot resolver
    let mut resolver_queries: Vec<(u64, String, bool)> = Vec::new();
    if (focus == "C14" && r.chance(1, 2)) || r.chance(1, 8) {
        let mut script = vec![(0, AppOp::SetTimeoutMs(*r.pick(&[50u64, 300, 1000])))];
        for _ in 0..1 + r.usize_below(3) {
            let at = t_in(&mut r, 100, duration_ms);
            // half of the queries go to a name some responder registers an SRV (or an address)
            // under, so that they are answered and the resolver's follow-up paths run
            let port = r.chance(1, 2);
            let textual = |o: &Labels| !o.is_empty() && o.iter().all(|l| !l.contains(&b'.'));
            let registered: Vec<&Rec> = resp_records.iter().flatten().filter(|x| x.rtype == if port { t::SRV } else { t::A } && x.class == 1 && textual(&x.owner)).collect();
            let owner = if !registered.is_empty() && r.chance(2, 3) { registered[r.usize_below(registered.len())].owner.clone() } else { owners[r.usize_below(owners.len())].clone() };
            let n = labels_to_string(&owner);
            script.push((at, if port { AppOp::QueryAddressPort(n) } else { AppOp::QueryAddress(n) }));
        }
        script.sort_by_key(|x| x.0);
        for (at, op) in &script {
            match op {
                AppOp::QueryAddress(n) => resolver_queries.push((*at, n.clone(), false)),
                AppOp::QueryAddressPort(n) => resolver_queries.push((*at, n.clone(), true)),
                _ => {}
            }
        }
        nodes.push(NodeSpec { kind: NodeKind::Resolver { asyncv: r.chance(1, 3) }, start_ms: 0, script });
    }

    // records some node of this scenario registers at some time (responders' resources and the
    // discovery nodes' own instances): material for known-answer lists
    let mut known_pool: Vec<Rec> = resp_records.iter().flatten().cloned().collect();
    for n in &nodes {
        if let NodeKind::Discovery { service, instance, ttl, .. } = &n.kind {
            known_pool.extend(instance_records(&name_from_str(service), instance, *ttl, false));
        }
    }

    // ---- raw peers
    let n_raw = match focus {
        "C13" => 1 + r.usize_below(2),
        "C14" => 1 + r.usize_below(3),
        _ => r.usize_below(3),
    };
    let n_service_nodes = nodes.len() as u32;
    let mut qid: u16 = 1000 + (seed as u16 % 1000);
    for _ in 0..n_raw {
        let mut script = Vec::new();
        let n_msgs = match focus {
            "C13" => 6 + r.usize_below(25),
            "C14" => 6 + r.usize_below(30),
            _ => r.usize_below(12),
        };
        for _ in 0..n_msgs {
            let at = t_in(&mut r, 50, duration_ms);
            let unicast_to = if r.chance(1, 8) && n_service_nodes > 0 { Some(r.below(n_service_nodes as u64) as u32) } else { None };
            let kind = r.below(10);
            let op = if hostile && kind < 3 {
                AppOp::SendRaw { bytes: garbage(&mut r), unicast_to }
            } else if kind < 6 || focus == "C13" {
                qid = qid.wrapping_add(1);
                let mut names = owners.clone();
                if hostile && r.chance(1, 3) {
                    names.push(hostile_name(&mut r, &name_from_str(services[0])));
                }
                let mut m = query_for(&mut r, qid, &names);
                if hostile && r.chance(1, 8) {
                    m.flags |= *r.pick(&[0x0800u16, 0x2000, 0x7800, 0x0001, 0x0003, 0x000f, 0x0040]);
                }
                if !known_pool.is_empty() && r.chance(1, 4) {
                    // what real queriers append: a known-answer list (RFC 6762 §7.1) and, when
                    // probing, the proposed records in the authority section (§8.2). The
                    // statement lets neither change the reply.
                    for _ in 0..1 + r.usize_below(3) {
                        let mut k = known_pool[r.usize_below(known_pool.len())].clone();
                        match r.below(4) {
                            0 => k.ttl = 0,
                            1 => k.ttl /= 2,
                            2 => k.ttl = k.ttl.saturating_add(1),
                            _ => {}
                        }
                        if r.chance(1, 6) {
                            k.cache_flush = !k.cache_flush;
                        }
                        match r.below(6) {
                            0 => m.authority.push(k),
                            1 => m.additional.push(k),
                            _ => m.answers.push(k),
                        }
                    }
                    if r.chance(1, 4) {
                        // a question asking exactly for the first listed record (simple-dns
                        // rejects a message whose QTYPE it has no name for, so only those)
                        if let Some(k) = m.answers.first().cloned() {
                            m.questions.push(Q { name: k.owner.clone(), qtype: if r.chance(1, 2) && (k.rtype == t::NULL || dnsgen::gen::TYPED.contains(&k.rtype)) { k.rtype } else { t::ANY }, qclass: if r.chance(1, 2) { k.class } else { 255 }, unicast: r.chance(1, 3) });
                        }
                    }
                }
                if r.chance(1, 6) {
                    let o = opt_rec(&mut r, hostile, &name_from_str(services[0]));
                    m.additional.push(o);
                }
                AppOp::SendMsg { msg: m, compress: r.chance(1, 2), unicast_to, exact: !hostile }
            } else {
                // a response: announcements of invented instances, foreign services, hostile names
                qid = qid.wrapping_add(1);
                let svc = name_from_str(*r.pick(&SERVICES));
                let mut m = MsgSpec { id: qid, flags: 0x8400, ..Default::default() };
                if r.chance(1, 5) {
                    // AA is "ignored on reception", so are TC/RD/RA/AD/CD (RFC 6762 §18)
                    m.flags = 0x8000;
                    for b in [0x0400u16, 0x0200, 0x0100, 0x0080, 0x0020, 0x0010] {
                        if r.chance(1, 2) {
                            m.flags |= b;
                        }
                    }
                }
                if hostile && r.chance(1, 8) {
                    // opcode / rcode / Z: "MUST be silently ignored" or rejected — fuzzy only
                    m.flags |= *r.pick(&[0x0800u16, 0x2000, 0x7800, 0x0001, 0x0003, 0x000f, 0x0040]);
                }
                let mut fake_used = Vec::new();
                let mut fake = inst(&mut r, &mut fake_used);
                if r.chance(1, 3) {
                    // look-alike of a real instance or a deeper subdomain
                    fake.name = r.pick(&INST_NAMES).to_string();
                }
                let ttl = *r.pick(&TTLS);
                let flush = r.chance(1, 5);
                let mut recs = instance_records(&svc, &fake, ttl, flush);
                if r.chance(1, 2) {
                    // a foreign implementation is free to use SRV priorities and weights
                    for rec in recs.iter_mut() {
                        if rec.rtype == t::SRV {
                            rec.fields[0] = F::U16(r.below(4) as u16);
                            rec.fields[1] = F::U16(r.below(4) as u16 * 7);
                        }
                    }
                }
                if matches!(focus, "C16" | "C15") && !hostile && r.chance(1, 2) {
                    // other record types under the instance name (all wire-valid)
                    for _ in 0..1 + r.usize_below(4) {
                        let ty = *r.pick(&dnsgen::gen::TYPED);
                        let mut o = vec![fake.name.as_bytes().to_vec()];
                        o.extend(svc.iter().cloned());
                        let pool = vec![o.clone(), svc.clone(), name_from_str("host.local")];
                        let mut x = dnsgen::gen::record(&mut r, o, ty, &pool, &dnsgen::gen::Sizes::default());
                        x.ttl = ttl;
                        x.class = 1;
                        x.cache_flush = flush;
                        if let Some(tw) = encoding_twin(&x) {
                            if r.chance(1, 2) {
                                recs.push(tw);
                            }
                        }
                        recs.push(x);
                    }
                }
                if hostile {
                    for rec in recs.iter_mut() {
                        if r.chance(1, 3) {
                            rec.owner = hostile_name(&mut r, &svc);
                        }
                    }
                    // every RDATA variant under the watched service
                    for _ in 0..r.usize_below(4) {
                        let ty = dnsgen::gen::any_rtype(&mut r);
                        let mut o = vec![fake.name.as_bytes().to_vec()];
                        o.extend(svc.iter().cloned());
                        let pool = vec![o.clone(), svc.clone()];
                        let mut x = dnsgen::gen::record(&mut r, o, ty, &pool, &dnsgen::gen::Sizes::default());
                        x.ttl = ttl;
                        if r.chance(1, 3) {
                            odd_inner_lengths(&mut r, &mut x);
                        }
                        recs.push(x);
                    }
                }
                if hostile && r.chance(1, 12) {
                    // a response with very many small records
                    let n = 41 + r.usize_below(260);
                    let base = recs.first().cloned();
                    if let Some(b) = base {
                        for i in 0..n {
                            let mut x = b.clone();
                            x.rtype = t::A;
                            x.fields = vec![F::U32(0x0A00_0000 + i as u32)];
                            recs.push(x);
                        }
                    }
                }
                if r.chance(1, 4) {
                    // deeper owner
                    for rec in recs.iter_mut() {
                        rec.owner.insert(0, b"deep".to_vec());
                    }
                }
                if !recs.is_empty() && r.chance(1, 8) {
                    // the same record twice in one message with another TTL / flush bit: the
                    // later copy decides (sections are ingested in order)
                    let mut d = recs[r.usize_below(recs.len())].clone();
                    d.ttl = *r.pick(&TTLS);
                    d.cache_flush = r.chance(1, 3);
                    recs.push(d);
                }
                let split = if recs.len() > 1 && r.chance(1, 3) { r.usize_below(recs.len()) } else { recs.len() };
                m.additional = recs.split_off(split);
                m.answers = recs;
                if r.chance(1, 3) {
                    // stray records that no watcher of `svc` may report: another service's
                    // instance, the service name itself, an unrelated host
                    for _ in 0..1 + r.usize_below(2) {
                        let owner = match r.below(3) {
                            0 => {
                                let mut o = vec![r.pick(&INST_NAMES).as_bytes().to_vec()];
                                o.extend(name_from_str(*r.pick(&SERVICES)));
                                o
                            }
                            1 => svc.clone(),
                            _ => name_from_str("stray.host.local"),
                        };
                        let rec = match r.below(3) {
                            0 => Rec { owner, rtype: t::A, class: 1, cache_flush: flush, ttl, fields: vec![F::U32(0x0A63_0000 + r.below(250) as u32)] },
                            1 => Rec { owner: owner.clone(), rtype: t::SRV, class: 1, cache_flush: flush, ttl, fields: vec![F::U16(0), F::U16(0), F::U16(9000 + r.below(9) as u16), F::Name(owner, Comp::Never)] },
                            _ => Rec { owner, rtype: t::TXT, class: 1, cache_flush: flush, ttl, fields: vec![F::Str(b"stray=1".to_vec())] },
                        };
                        if r.chance(1, 2) {
                            m.additional.push(rec);
                        } else {
                            m.answers.push(rec);
                        }
                    }
                }
                if r.chance(1, 6) {
                    for _ in 0..if hostile { 1 + r.usize_below(2) } else { 1 } {
                        let o = opt_rec(&mut r, hostile, &svc);
                        if hostile && r.chance(1, 4) {
                            m.answers.push(o);
                        } else {
                            m.additional.push(o);
                        }
                    }
                }
                AppOp::SendMsg { msg: m, compress: r.chance(2, 3), unicast_to: None, exact: !hostile }
            };
            script.push((at, op));
        }
        // Answers for the one-shot resolver. It asks with id 0 and the unicast-response bit and
        // reads only its multicast socket, so what it processes are id-0 responses sent to the
        // group: the address directly, an SRV with the address next to it, an SRV alone (which
        // starts the resolver's follow-up address query), answers for other names, on time or
        // late with respect to the query's deadline.
        for (at, name, port) in &resolver_queries {
            if !r.chance(1, 2) {
                continue;
            }
            let owner = name_from_str(name);
            let host = if r.chance(1, 2) { owner.clone() } else { name_from_str("host.verif.local") };
            let a = |o: &Labels, r: &mut Rng| Rec { owner: o.clone(), rtype: if r.chance(3, 4) { t::A } else { t::AAAA }, class: 1, cache_flush: r.chance(1, 4), ttl: 120, fields: vec![F::U32(0x0A00_0001 + r.below(200) as u32)] };
            let mut m = MsgSpec { id: 0, flags: 0x8400, ..Default::default() };
            if *port {
                m.answers.push(Rec { owner: owner.clone(), rtype: t::SRV, class: 1, cache_flush: false, ttl: 120, fields: vec![F::U16(0), F::U16(0), F::U16(8000 + r.below(99) as u16), F::Name(host.clone(), Comp::Never)] });
                match r.below(3) {
                    0 => {}
                    1 => {
                        let x = a(&host, &mut r);
                        m.additional.push(x);
                    }
                    _ => {
                        let x = a(&owner, &mut r);
                        m.additional.push(x);
                    }
                }
            } else {
                let x = if r.chance(3, 4) { a(&owner, &mut r) } else { a(&host, &mut r) };
                m.answers.push(x);
            }
            // AAAA needs 16 bytes
            for rec in m.answers.iter_mut().chain(m.additional.iter_mut()) {
                if rec.rtype == t::AAAA {
                    rec.fields = vec![F::U128(0xfe80_0000_0000_0000_0000_0000_0000_0001 + r.below(200) as u128)];
                }
            }
            let delay = *r.pick(&[1u64, 5, 30, 49, 51, 120, 299, 301, 990, 1010, 1500]);
            script.push((at + delay, AppOp::SendMsg { msg: m, compress: r.chance(1, 2), unicast_to: None, exact: !hostile }));
        }
        script.push((duration_ms, AppOp::Drain));
        script.sort_by_key(|x| x.0);
        nodes.push(NodeSpec {
            // source port 0 is legal on the wire (spoofed / raw senders): a unicast reply to it fails
            kind: NodeKind::RawPeer { port: if hostile && r.chance(1, 4) { Some(0) } else if r.chance(1, 6) { Some(5353) } else { None }, joined: r.chance(2, 3) },
            start_ms: 0,
            script,
        });
    }

    // ---- fault script
    let n_nodes = nodes.len() as u32;
    if matches!(profile, Profile::Lossy | Profile::Chaos) && n_nodes > 1 {
        for _ in 0..r.usize_below(3) {
            let at = t_in(&mut r, 0, duration_ms);
            let len = t_in(&mut r, 10, (duration_ms / 2).max(11));
            let k = 1 + r.usize_below(n_nodes as usize - 1);
            let mut ids: Vec<u32> = (0..n_nodes).collect();
            r.shuffle(&mut ids);
            ids.truncate(k);
            ids.sort();
            root.push((at, RootStep::Partition { nodes: ids }));
            root.push((at + len, RootStep::Heal));
        }
    }
    if profile == Profile::Chaos || (matches!(focus, "C15" | "C20") && profile == Profile::Lossy && r.chance(1, 3)) {
        for _ in 0..r.usize_below(3) {
            let node = r.below(n_service_nodes.max(1) as u64) as u32;
            let at = t_in(&mut r, 10, duration_ms);
            match r.below(4) {
                0 => {
                    root.push((at, RootStep::Crash { node }));
                    if r.chance(2, 3) {
                        root.push((at + t_in(&mut r, 1, 5_000), RootStep::Restart { node }));
                    }
                }
                1 => root.push((at, RootStep::ClockJump { node, ms: *r.pick(&[1u64, 999, 1000, 1001, 30_000, 120_000]) })),
                _ => root.push((at, RootStep::Stall { node, ms: *r.pick(&[1u64, 150, 3_000]) })),
            }
        }
    }
    root.retain(|(at, _)| *at <= duration_ms);
    root.sort_by_key(|x| x.0);

    Scenario {
        seed,
        focus: focus.to_string(),
        profile,
        knobs: kn,
        nodes,
        root,
        duration_ms,
        probe: true,
        // long runs (they cross the 4500 s TTL) need a larger step budget
        max_steps: if duration_ms > 1_000_000 { 600_000 } else if duration_ms > 100_000 { 150_000 } else { 60_000 },
        v6: r.chance(1, 8),
    }
}
