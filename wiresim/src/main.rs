fn main(){}
