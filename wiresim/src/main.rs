//! wire-sim: the real `Packet::{write_to, write_compressed_to, build_bytes_vec*}` driving a
//! simulated `Write + Seek` device with fault injection. Decides C04 and C07.
//!
//! usage:
//!   wiresim check <C04|C07> [--tier quick|thorough] [--seed N] [--cases N] [--jobs N]
//!   wiresim replay <file>
//! exit codes: 0 held (or only known findings), 1 VIOLATION, 2 harness error.

mod oracle;
mod simwriter;

use std::collections::{BTreeMap, HashSet};
use std::path::{Path, PathBuf};
use std::time::Instant;

use dnsgen::bridge::{self, OptSpec};
use dnsgen::gen::{self, LabelStyle, PacketCfg, Sizes};
use oracle::{check_frame, check_pointers, check_writer, Finding, PtrStats};
use refdns::{MsgSpec, F};
use serde::{Deserialize, Serialize};
use simrt::rng::{mix, Rng};
use simwriter::{build_vec, exec, Fault, Mode, Res, WriterCfg};

/// distinct (packet, mode, writer) hashes kept per worker thread; beyond it the count is a lower bound
const DISTINCT_CAP_PER_THREAD: usize = 2_000_000;

#[derive(Clone, Debug, Serialize, Deserialize)]
struct Replay {
    property: String,
    signature: String,
    detail: String,
    verif_seed: u64,
    case_seed: u64,
    minimised: bool,
    spec: MsgSpec,
    opt: Option<OptSpec>,
    mode: Mode,
    /// None: the vector-returning entry point itself
    writer: Option<WriterCfg>,
    /// construction style (which public constructors build the values), see dnsgen::bridge::STYLE
    #[serde(default)]
    style: u64,
}

#[derive(Default, Clone)]
struct Stats {
    cases: u64,
    execs: u64,
    frame_checks: u64,
    ptr_checks: u64,
    nontrivial: HashSet<u64>,
    ptr_nontrivial: HashSet<u64>,
    fault_fired: BTreeMap<String, u64>,
    fault_planned: BTreeMap<String, u64>,
    writer_kinds: BTreeMap<String, u64>,
    capacity_binding: u64,
    origin_nonzero: u64,
    prefilled: u64,
    over_64k_skipped: u64,
    msgs_over_16k: u64,
    max_len: usize,
    ptr: PtrStats,
    rtypes: HashSet<u16>,
    samples: Vec<serde_json::Value>,
}

impl Stats {
    fn merge(&mut self, o: Stats) {
        self.cases += o.cases;
        self.execs += o.execs;
        self.frame_checks += o.frame_checks;
        self.ptr_checks += o.ptr_checks;
        self.nontrivial.extend(o.nontrivial);
        self.ptr_nontrivial.extend(o.ptr_nontrivial);
        for (k, v) in o.fault_fired {
            *self.fault_fired.entry(k).or_default() += v;
        }
        for (k, v) in o.fault_planned {
            *self.fault_planned.entry(k).or_default() += v;
        }
        for (k, v) in o.writer_kinds {
            *self.writer_kinds.entry(k).or_default() += v;
        }
        self.capacity_binding += o.capacity_binding;
        self.origin_nonzero += o.origin_nonzero;
        self.prefilled += o.prefilled;
        self.over_64k_skipped += o.over_64k_skipped;
        self.msgs_over_16k += o.msgs_over_16k;
        self.max_len = self.max_len.max(o.max_len);
        self.ptr.names += o.ptr.names;
        self.ptr.pointers += o.ptr.pointers;
        self.ptr.never_names += o.ptr.never_names;
        self.ptr.must_repeats += o.ptr.must_repeats;
        self.ptr.beyond_16k_names += o.ptr.beyond_16k_names;
        self.ptr.repeats_of_beyond_16k += o.ptr.repeats_of_beyond_16k;
        self.ptr.desync += o.ptr.desync;
        self.rtypes.extend(o.rtypes);
        if self.samples.len() < 6 {
            self.samples.extend(o.samples.into_iter().take(2));
        }
    }
}

fn hash_bytes(b: &[u8]) -> u64 {
    let mut h = 0xcbf2_9ce4_8422_2325u64;
    for x in b {
        h ^= *x as u64;
        h = h.wrapping_mul(0x0000_0100_0000_01B3);
    }
    h
}

fn fault_name(f: &Fault) -> &'static str {
    match f {
        Fault::ErrOnWrite(_) => "write-error",
        Fault::ErrOnSeek(_) => "seek-error",
        Fault::ErrOnFlush => "flush-error",
        Fault::ZeroOnWrite(_) => "write-zero",
        Fault::ErrAtByte(_) => "device-error-at-byte",
        Fault::ShortOnWrite(..) => "short-write",
        Fault::IntrOnWrite(_) => "interrupted",
        Fault::ChunkAll(_) => "chunked-writes",
    }
}

/// Swarm-style case configuration: every knob drawn per case.
fn case_cfg(r: &mut Rng, prop: &str) -> PacketCfg {
    let class = r.below(100);
    let big_bias = if prop == "C07" { 12 } else { 4 };
    let mut cfg = PacketCfg::default();
    cfg.style = if r.chance(1, 3) { LabelStyle::Binary } else { LabelStyle::Plain };
    cfg.max_label = *r.pick(&[1usize, 3, 8, 20, 63]);
    cfg.pool = 3 + r.usize_below(10);
    cfg.opt_chance_pct = *r.pick(&[0u64, 0, 25, 60]);
    if class < 25 {
        cfg.max_q = 1;
        cfg.max_rr = 1;
        cfg.sizes = Sizes { blob_max: 6, txt_strings_max: 2, txt_string_max: 6 };
    } else if class < 100 - big_bias {
        cfg.max_q = 3;
        cfg.max_rr = 1 + r.usize_below(5);
        cfg.sizes = Sizes { blob_max: *r.pick(&[0usize, 4, 40, 255]), txt_strings_max: 4, txt_string_max: *r.pick(&[1usize, 40, 255]) };
    } else {
        // large: cross 16 KiB, names first appearing beyond offset 16383 and then repeated
        cfg.max_q = 2;
        cfg.max_rr = 6 + r.usize_below(8);
        cfg.pool = 4 + r.usize_below(6);
        cfg.sizes = Sizes { blob_max: *r.pick(&[1500usize, 3000, 6000]), txt_strings_max: 24, txt_string_max: 255 };
    }
    cfg
}

struct Tier {
    cases: u64,
    /// exhaustive capacity / fault-index enumeration up to this message length
    exhaustive_len: usize,
    samples_per_dim: usize,
}

struct CaseOut {
    findings: Vec<(Finding, Mode, Option<WriterCfg>)>,
}

fn sample_points(r: &mut Rng, n: usize, limit: usize, boundaries: &[usize]) -> Vec<usize> {
    // all points if small; else boundaries +-2 and random
    if limit <= n {
        return (0..=limit).collect();
    }
    let mut s: HashSet<usize> = HashSet::new();
    for &b in boundaries {
        for d in 0..5usize {
            let v = (b + d).saturating_sub(2);
            if v <= limit {
                s.insert(v);
            }
        }
    }
    s.insert(0);
    s.insert(limit);
    let mut v: Vec<usize> = s.into_iter().collect();
    v.sort();
    if v.len() > n {
        r.shuffle(&mut v);
        v.truncate(n);
    }
    while v.len() < n {
        v.push(r.usize_below(limit + 1));
    }
    v.sort();
    v.dedup();
    v
}

/// Run the whole enumeration for one generated packet.
fn run_case(prop: &str, spec: &MsgSpec, opt: Option<&OptSpec>, r: &mut Rng, tier: &Tier, st: &mut Stats) -> CaseOut {
    let mut out = CaseOut { findings: Vec::new() };
    let packet = bridge::packet(spec, opt);
    let spec_hash = hash_bytes(format!("{:?}{:?}", spec, opt).as_bytes());
    st.cases += 1;
    for rec in spec.answers.iter().chain(&spec.authority).chain(&spec.additional) {
        st.rtypes.insert(rec.rtype);
    }
    let modes: &[Mode] = if prop == "C07" { &[Mode::Compressed] } else { &[Mode::Plain, Mode::Compressed] };
    for &mode in modes {
        let (res, bytes) = build_vec(&packet, mode);
        st.execs += 1;
        let reference = match (res, bytes) {
            (Res::Ok, Some(b)) => b,
            (Res::Panic(p), _) => {
                out.findings.push((Finding { prop: "C04", sig: "build:panic".into(), detail: p }, mode, None));
                continue;
            }
            (Res::Err(e), _) => {
                out.findings.push((Finding { prop: "C04", sig: "build:error-on-valid-packet".into(), detail: e }, mode, None));
                continue;
            }
            _ => unreachable!(),
        };
        let l = reference.len();
        if l > 65535 {
            st.over_64k_skipped += 1;
            continue;
        }
        st.max_len = st.max_len.max(l);
        if l > 16383 {
            st.msgs_over_16k += 1;
        }
        if st.samples.len() < 2 && l < 120 {
            st.samples.push(serde_json::json!({"mode": format!("{:?}", mode), "message_hex": hex(&reference), "questions": spec.questions.len(), "answers": spec.answers.len(), "authority": spec.authority.len(), "additional": spec.additional.len(), "opt": opt.is_some()}));
        }
        if prop == "C04" {
            st.frame_checks += 1;
            for fd in check_frame(&reference, spec, opt, mode) {
                out.findings.push((fd, mode, None));
            }
        }
        if prop == "C07" && mode == Mode::Compressed {
            st.ptr_checks += 1;
            let (fds, ps) = check_pointers(&reference, spec, opt, false);
            if ps.pointers > 0 {
                st.ptr_nontrivial.insert(hash_bytes(&reference));
            }
            add_ptr(&mut st.ptr, &ps);
            for fd in fds {
                out.findings.push((fd, mode, None));
            }
        }

        // ---- writer configurations
        let k = 3 + r.usize_below(40);
        let mut cfgs: Vec<WriterCfg> = Vec::new();
        // (a) std writer kinds x origin x {empty, pre-filled}
        if mode == Mode::Plain {
            cfgs.push(WriterCfg::VecAppend { prefill: 0 });
            cfgs.push(WriterCfg::VecAppend { prefill: k });
        }
        for (o, p) in [(0, 0), (2, 2), (k, k), (0, l + 5), (2, l + 9), (k, k + l + 3), (k, k + l / 2), (0, l), (0, l.saturating_sub(1))] {
            cfgs.push(WriterCfg::CursorVec { origin: o, prefill: p });
            cfgs.push(WriterCfg::Sim { origin: o, prefill: p, cap: None, faults: vec![] });
        }
        for (o, p) in [(0, 0), (k, k), (2, l + 9)] {
            cfgs.push(WriterCfg::CursorVecRef { origin: o, prefill: p });
        }
        if prop == "C04" {
            // (b) fixed capacity writers: every capacity 0..=len+2 (sampled above exhaustive_len)
            let caps = sample_points(r, if l <= tier.exhaustive_len { l + 2 } else { tier.samples_per_dim }, l + 2, &[12, l]);
            for &c in &caps {
                if mode == Mode::Plain {
                    cfgs.push(WriterCfg::Slice { cap: c });
                }
                cfgs.push(WriterCfg::CursorSlice { origin: 0, cap: c });
                cfgs.push(WriterCfg::Sim { origin: 0, prefill: 0, cap: Some(c), faults: vec![] });
            }
            let caps2 = sample_points(r, tier.samples_per_dim.min(l + 2), l + 2, &[12, l]);
            for &c in &caps2 {
                cfgs.push(WriterCfg::CursorSlice { origin: 2, cap: 2 + c });
                cfgs.push(WriterCfg::CursorSlice { origin: k, cap: k + c });
                cfgs.push(WriterCfg::Sim { origin: k, prefill: k + c, cap: Some(k + c), faults: vec![] });
            }
            // (c) a hard fault at every call index
            let probe = exec(&packet, mode, &WriterCfg::Sim { origin: 0, prefill: 0, cap: None, faults: vec![] });
            let (wn, sn, _) = probe.calls;
            let wi = sample_points(r, if l <= tier.exhaustive_len { wn as usize } else { tier.samples_per_dim }, wn as usize, &[1, wn as usize]);
            for &n in &wi {
                if n == 0 {
                    continue;
                }
                cfgs.push(WriterCfg::Sim { origin: 0, prefill: 0, cap: None, faults: vec![Fault::ErrOnWrite(n as u32)] });
                if r.chance(1, 3) {
                    cfgs.push(WriterCfg::Sim { origin: k, prefill: k + l + 2, cap: None, faults: vec![Fault::ZeroOnWrite(n as u32)] });
                }
            }
            for n in 1..=sn {
                cfgs.push(WriterCfg::Sim { origin: 0, prefill: 0, cap: None, faults: vec![Fault::ErrOnSeek(n)] });
            }
            cfgs.push(WriterCfg::Sim { origin: 0, prefill: 0, cap: None, faults: vec![Fault::ErrOnFlush] });
            cfgs.push(WriterCfg::Sim { origin: k, prefill: k, cap: None, faults: vec![Fault::ErrOnFlush] });
            let bi = sample_points(r, tier.samples_per_dim.min(l + 1), l, &[12, l]);
            for &b in &bi {
                cfgs.push(WriterCfg::Sim { origin: 0, prefill: 0, cap: None, faults: vec![Fault::ErrAtByte(b as u64)] });
            }
        }
        // (d) transparent faults: identical outcome required
        cfgs.push(WriterCfg::Sim { origin: 0, prefill: 0, cap: None, faults: vec![Fault::ChunkAll(1)] });
        cfgs.push(WriterCfg::Sim { origin: k, prefill: k + l + 1, cap: None, faults: vec![Fault::ChunkAll(1 + r.below(7) as u32)] });
        for _ in 0..3 {
            let mut fs = Vec::new();
            for _ in 0..1 + r.usize_below(4) {
                let n = 1 + r.below(60) as u32;
                fs.push(if r.chance(1, 2) { Fault::IntrOnWrite(n) } else { Fault::ShortOnWrite(n, 1 + r.below(3) as u32) });
            }
            let (o, p) = *r.pick(&[(0usize, 0usize), (2, 2), (k, k + l + 4)]);
            cfgs.push(WriterCfg::Sim { origin: o, prefill: p, cap: None, faults: fs });
        }

        for cfg in cfgs {
            if !cfg.supports(mode) {
                continue;
            }
            let o = exec(&packet, mode, &cfg);
            st.execs += 1;
            *st.writer_kinds.entry(cfg.kind().into()).or_default() += 1;
            let mut nontrivial = false;
            if let WriterCfg::Sim { faults, .. } = &cfg {
                for fl in faults {
                    *st.fault_planned.entry(fault_name(fl).into()).or_default() += 1;
                }
                if o.hard_fired || o.transparent_fired {
                    nontrivial = true;
                    for fl in faults {
                        *st.fault_fired.entry(fault_name(fl).into()).or_default() += 1;
                    }
                }
            }
            if let Some(cap) = cfg.capacity() {
                if cfg.origin() + l > cap {
                    st.capacity_binding += 1;
                    nontrivial = true;
                }
            }
            if cfg.origin() > 0 {
                st.origin_nonzero += 1;
                nontrivial = true;
            }
            if cfg.initial_len() > cfg.origin() {
                st.prefilled += 1;
                nontrivial = true;
            }
            if nontrivial && st.nontrivial.len() < DISTINCT_CAP_PER_THREAD {
                st.nontrivial.insert(mix(spec_hash, hash_bytes(format!("{:?}{:?}", mode, cfg).as_bytes())));
            }
            if prop == "C04" {
                for fd in check_writer(&o, &reference, &cfg, mode) {
                    out.findings.push((fd, mode, Some(cfg.clone())));
                }
            }
            if prop == "C07" && mode == Mode::Compressed && matches!(o.res, Res::Ok) && !o.hard_fired {
                // pointers are judged relative to the first byte of the message on the device
                let ori = cfg.origin();
                if o.buf.len() >= ori + l {
                    let region = &o.buf[ori..ori + l];
                    st.ptr_checks += 1;
                    let (fds, ps) = check_pointers(region, spec, opt, ori != 0);
                    if ps.pointers > 0 {
                        st.ptr_nontrivial.insert(mix(hash_bytes(region), ori as u64));
                    }
                    add_ptr(&mut st.ptr, &ps);
                    for fd in fds {
                        out.findings.push((fd, mode, Some(cfg.clone())));
                    }
                }
            }
        }
    }
    out
}

fn add_ptr(a: &mut PtrStats, b: &PtrStats) {
    a.names += b.names;
    a.pointers += b.pointers;
    a.never_names += b.never_names;
    a.must_repeats += b.must_repeats;
    a.beyond_16k_names += b.beyond_16k_names;
    a.repeats_of_beyond_16k += b.repeats_of_beyond_16k;
    a.desync += b.desync;
}

fn hex(b: &[u8]) -> String {
    b.iter().map(|x| format!("{:02x}", x)).collect()
}

/// Re-run exactly one configuration and return the findings for `prop`.
fn check_one(prop: &str, spec: &MsgSpec, opt: Option<&OptSpec>, mode: Mode, writer: Option<&WriterCfg>, style: u64) -> Vec<Finding> {
    bridge::STYLE.with(|s| s.set(style));
    let packet = bridge::packet(spec, opt);
    let mut fds = Vec::new();
    let (res, bytes) = build_vec(&packet, mode);
    let reference = match (res, bytes) {
        (Res::Ok, Some(b)) => b,
        (Res::Panic(p), _) => return vec![Finding { prop: "C04", sig: "build:panic".into(), detail: p }],
        (Res::Err(e), _) => return vec![Finding { prop: "C04", sig: "build:error-on-valid-packet".into(), detail: e }],
        _ => unreachable!(),
    };
    match writer {
        None => {
            if prop == "C04" {
                fds.extend(check_frame(&reference, spec, opt, mode));
            } else if mode == Mode::Compressed {
                fds.extend(check_pointers(&reference, spec, opt, false).0);
            }
        }
        Some(cfg) => {
            let o = exec(&packet, mode, cfg);
            if prop == "C04" {
                fds.extend(check_writer(&o, &reference, cfg, mode));
            } else if matches!(o.res, Res::Ok) && !o.hard_fired {
                let ori = cfg.origin();
                let l = reference.len();
                if o.buf.len() >= ori + l {
                    fds.extend(check_pointers(&o.buf[ori..ori + l], spec, opt, ori != 0).0);
                }
            }
        }
    }
    fds.into_iter().filter(|f| f.prop == prop).collect()
}

/// Delta-debugging style minimisation: keep a candidate iff the same signature reappears.
fn minimise(rp: &Replay) -> Replay {
    let mut cur = rp.clone();
    let still = |c: &Replay| check_one(&c.property, &c.spec, c.opt.as_ref(), c.mode, c.writer.as_ref(), c.style).iter().any(|f| f.sig == c.signature);
    if !still(&cur) {
        return cur;
    }
    let mut progress = true;
    let mut rounds = 0;
    while progress && rounds < 40 {
        progress = false;
        rounds += 1;
        // drop entries
        for sec in 0..4 {
            let mut i = 0;
            loop {
                let len = match sec {
                    0 => cur.spec.questions.len(),
                    1 => cur.spec.answers.len(),
                    2 => cur.spec.authority.len(),
                    _ => cur.spec.additional.len(),
                };
                if i >= len {
                    break;
                }
                let mut c = cur.clone();
                match sec {
                    0 => {
                        c.spec.questions.remove(i);
                    }
                    1 => {
                        c.spec.answers.remove(i);
                    }
                    2 => {
                        c.spec.authority.remove(i);
                    }
                    _ => {
                        c.spec.additional.remove(i);
                    }
                }
                if still(&c) {
                    cur = c;
                    progress = true;
                } else {
                    i += 1;
                }
            }
        }
        if cur.opt.is_some() {
            let mut c = cur.clone();
            c.opt = None;
            if still(&c) {
                cur = c;
                progress = true;
            }
        }
        // shrink blobs, strings, ttl, flags
        let n_recs = cur.spec.answers.len() + cur.spec.authority.len() + cur.spec.additional.len();
        for ri in 0..n_recs {
            let nf = rec_mut(&mut cur.spec, ri).fields.len();
            for fi in 0..nf {
                let mut c = cur.clone();
                let fixed = matches!(rec_mut(&mut c.spec, ri).rtype, refdns::t::NSAP | refdns::t::EUI48 | refdns::t::EUI64);
                let changed = match &mut rec_mut(&mut c.spec, ri).fields[fi] {
                    F::Bytes(b) if b.len() > 1 && !fixed => {
                        b.truncate(b.len() / 2);
                        true
                    }
                    F::Str(s) if s.len() > 1 => {
                        s.truncate(s.len() / 2);
                        true
                    }
                    _ => false,
                };
                if changed {
                    // keep length-prefixed pairs coherent (SVCB params / NSEC windows)
                    fix_len_prefix(rec_mut(&mut c.spec, ri));
                    if still(&c) {
                        cur = c;
                        progress = true;
                    }
                }
            }
            let mut c = cur.clone();
            let rec = rec_mut(&mut c.spec, ri);
            if rec.ttl != 0 || rec.cache_flush {
                rec.ttl = 0;
                rec.cache_flush = false;
                if still(&c) {
                    cur = c;
                    progress = true;
                }
            }
        }
        if cur.spec.flags != 0 || cur.spec.id != 0 {
            let mut c = cur.clone();
            c.spec.flags &= 0x8000;
            c.spec.id = 0;
            if still(&c) {
                cur = c;
                progress = true;
            }
        }
        // simplify the writer
        if let Some(w) = cur.writer.clone() {
            for cand in simpler_writers(&w) {
                let mut c = cur.clone();
                c.writer = Some(cand);
                if still(&c) {
                    cur = c;
                    progress = true;
                    break;
                }
            }
        }
    }
    cur.minimised = true;
    if let Some(fd) = check_one(&cur.property, &cur.spec, cur.opt.as_ref(), cur.mode, cur.writer.as_ref(), cur.style).into_iter().find(|f| f.sig == cur.signature) {
        cur.detail = fd.detail;
    }
    cur
}

fn rec_mut(spec: &mut MsgSpec, i: usize) -> &mut refdns::Rec {
    let a = spec.answers.len();
    let b = spec.authority.len();
    if i < a {
        &mut spec.answers[i]
    } else if i < a + b {
        &mut spec.authority[i - a]
    } else {
        &mut spec.additional[i - a - b]
    }
}

fn fix_len_prefix(rec: &mut refdns::Rec) {
    use refdns::t;
    if rec.rtype == t::SVCB || rec.rtype == t::HTTPS {
        let mut i = 2;
        while i + 2 < rec.fields.len() {
            if let F::Bytes(b) = &rec.fields[i + 2] {
                let l = b.len() as u16;
                rec.fields[i + 1] = F::U16(l);
            }
            i += 3;
        }
    }
    if rec.rtype == t::NSEC {
        let mut i = 1;
        while i + 2 < rec.fields.len() {
            if let F::Bytes(b) = &rec.fields[i + 2] {
                let l = b.len() as u8;
                rec.fields[i + 1] = F::U8(l);
            }
            i += 3;
        }
    }
}

fn simpler_writers(w: &WriterCfg) -> Vec<WriterCfg> {
    let mut v = Vec::new();
    match w {
        WriterCfg::CursorVec { origin, prefill } | WriterCfg::CursorVecRef { origin, prefill } => {
            if *origin > 2 {
                v.push(WriterCfg::CursorVec { origin: 2, prefill: 2 + prefill.saturating_sub(*origin) });
                v.push(WriterCfg::CursorVec { origin: 1, prefill: 1 + prefill.saturating_sub(*origin) });
            }
            if *prefill > *origin {
                v.push(WriterCfg::CursorVec { origin: *origin, prefill: *origin });
            }
            if *origin > 0 {
                v.push(WriterCfg::CursorVec { origin: 0, prefill: prefill.saturating_sub(*origin) });
            }
        }
        WriterCfg::Sim { origin, prefill, cap, faults } => {
            if faults.len() > 1 {
                for i in 0..faults.len() {
                    let mut f2 = faults.clone();
                    f2.remove(i);
                    v.push(WriterCfg::Sim { origin: *origin, prefill: *prefill, cap: *cap, faults: f2 });
                }
            }
            if *origin > 0 && cap.is_none() {
                v.push(WriterCfg::Sim { origin: 0, prefill: prefill.saturating_sub(*origin), cap: None, faults: faults.clone() });
            }
            if faults.is_empty() && cap.is_none() {
                v.push(WriterCfg::CursorVec { origin: *origin, prefill: *prefill });
            }
        }
        _ => {}
    }
    v
}

#[derive(Deserialize)]
struct KnownFinding {
    status: String,
    property: String,
    #[serde(default)]
    signature_prefix: String,
    #[serde(default)]
    what: String,
}

fn load_known(prop: &str) -> Vec<KnownFinding> {
    let p = format!("{}/known_findings.json", verif_root());
    let Ok(s) = std::fs::read_to_string(Path::new(&p)) else { return vec![] };
    let all: Vec<KnownFinding> = match serde_json::from_str(&s) {
        Ok(v) => v,
        Err(e) => {
            eprintln!("harness error: known_findings.json unreadable: {}", e);
            std::process::exit(2);
        }
    };
    all.into_iter().filter(|k| k.property == prop && k.status == "known" && !k.signature_prefix.is_empty()).collect()
}

fn sanitize(s: &str) -> String {
    s.chars().map(|c| if c.is_ascii_alphanumeric() || c == '-' { c } else { '_' }).collect()
}

fn main() {
    simwriter::install_quiet_panic_hook();
    let args: Vec<String> = std::env::args().collect();
    if args.len() < 3 {
        eprintln!("usage: wiresim check <C04|C07> [--tier quick|thorough] [--seed N] [--cases N] [--jobs N] | wiresim replay <file>");
        std::process::exit(2);
    }
    if args[1] == "parse-scan" {
        // developer aid (not a registered check): which panic sites can a mangled datagram reach?
        parse_scan(args[2].parse().unwrap_or(2000));
        return;
    }
    if args[1] == "replay" {
        std::process::exit(replay(&args[2]));
    }
    if args[1] != "check" {
        eprintln!("unknown command");
        std::process::exit(2);
    }
    let prop = args[2].clone();
    if prop != "C04" && prop != "C07" {
        eprintln!("wiresim serves C04 and C07");
        std::process::exit(2);
    }
    let mut tier_name = std::env::var("VERIF_TIER").unwrap_or_else(|_| "quick".into());
    let mut seed: u64 = std::env::var("VERIF_SEED").ok().and_then(|s| s.parse().ok()).unwrap_or(1);
    let mut cases_override: Option<u64> = None;
    let mut jobs: usize = std::thread::available_parallelism().map(|n| n.get()).unwrap_or(8).min(16);
    let mut i = 3;
    while i < args.len() {
        match args[i].as_str() {
            "--tier" => {
                tier_name = args[i + 1].clone();
                i += 1;
            }
            "--seed" => {
                seed = args[i + 1].parse().expect("seed");
                i += 1;
            }
            "--cases" => {
                cases_override = Some(args[i + 1].parse().expect("cases"));
                i += 1;
            }
            "--jobs" => {
                jobs = args[i + 1].parse().expect("jobs");
                i += 1;
            }
            _ => {}
        }
        i += 1;
    }
    let mut tier = match (prop.as_str(), tier_name.as_str()) {
        ("C04", "thorough") => Tier { cases: 2_000_000, exhaustive_len: 600, samples_per_dim: 48 },
        ("C04", _) => Tier { cases: 40_000, exhaustive_len: 300, samples_per_dim: 24 },
        ("C07", "thorough") => Tier { cases: 6_000_000, exhaustive_len: 0, samples_per_dim: 8 },
        (_, _) => Tier { cases: 150_000, exhaustive_len: 0, samples_per_dim: 8 },
    };
    if let Some(c) = cases_override {
        tier.cases = c;
    }
    println!("wire-sim property={} tier={} VERIF_SEED={} cases={} jobs={}", prop, tier_name, seed, tier.cases, jobs);
    let t0 = Instant::now();
    let tier = std::sync::Arc::new(tier);
    let mut handles = Vec::new();
    for j in 0..jobs {
        let prop = prop.clone();
        let tier = tier.clone();
        handles.push(std::thread::Builder::new().stack_size(16 << 20).spawn(move || {
            let mut st = Stats::default();
            let mut found: BTreeMap<String, Replay> = BTreeMap::new();
            let mut c = j as u64;
            while c < tier.cases {
                let case_seed = mix(seed, mix(hash_bytes(prop.as_bytes()), c));
                let mut r = Rng::new(case_seed);
                let cfg = case_cfg(&mut r, &prop);
                // a share of the cases is built to straddle the 14-bit pointer limit
                let boundary = r.below(100) < if prop == "C07" { 15 } else { 2 };
                let (spec, opt) = if boundary { gen::boundary_packet(&mut r) } else { gen::packet(&mut r, &cfg) };
                // which public constructors build the values of this case
                let style = if r.chance(1, 2) { mix(case_seed, 0x57E) | 1 } else { 0 };
                bridge::STYLE.with(|s| s.set(style));
                let out = run_case(&prop, &spec, opt.as_ref(), &mut r, &tier, &mut st);
                for (fd, mode, w) in out.findings {
                    if fd.prop != prop {
                        continue;
                    }
                    found.entry(fd.sig.clone()).or_insert_with(|| Replay {
                        property: prop.clone(),
                        signature: fd.sig.clone(),
                        detail: fd.detail.clone(),
                        verif_seed: seed,
                        case_seed: c,
                        minimised: false,
                        spec: spec.clone(),
                        opt: opt.clone(),
                        mode,
                        writer: w,
                        style,
                    });
                }
                c += jobs as u64;
            }
            (st, found)
        }).unwrap());
    }
    let mut st = Stats::default();
    let mut found: BTreeMap<String, Replay> = BTreeMap::new();
    // regression corpus (`corpus/<prop>/*.json`, replay-file format): packets and writer
    // configurations that once exposed a defect of the pinned tree or a seeded change are
    // executed again on every check — the recorded configuration first, then every writer
    // configuration of the tier. Any finding of the property counts.
    let mut corpus_replayed = 0u64;
    {
        let cdir = PathBuf::from(format!("{}/corpus/{}", verif_root(), prop));
        let mut files: Vec<PathBuf> = match std::fs::read_dir(&cdir) {
            Ok(rd) => rd.filter_map(|e| e.ok().map(|e| e.path())).filter(|p| p.extension().map_or(false, |x| x == "json")).collect(),
            Err(_) => Vec::new(),
        };
        files.sort();
        let mut scratch = Stats::default();
        for (idx, path) in files.iter().enumerate() {
            let rp: Replay = match std::fs::read_to_string(path).map_err(|e| e.to_string()).and_then(|s| serde_json::from_str(&s).map_err(|e| e.to_string())) {
                Ok(r) => r,
                Err(e) => {
                    eprintln!("harness error: corpus file {} unreadable: {}", path.display(), e);
                    std::process::exit(2);
                }
            };
            corpus_replayed += 1;
            bridge::STYLE.with(|s| s.set(rp.style));
            let mut fds: Vec<(Finding, Mode, Option<WriterCfg>)> = check_one(&prop, &rp.spec, rp.opt.as_ref(), rp.mode, rp.writer.as_ref(), rp.style).into_iter().map(|f| (f, rp.mode, rp.writer.clone())).collect();
            let mut r = Rng::new(mix(seed, mix(0xC0A9, idx as u64)));
            bridge::STYLE.with(|s| s.set(rp.style));
            fds.extend(run_case(&prop, &rp.spec, rp.opt.as_ref(), &mut r, &tier, &mut scratch).findings);
            for (fd, mode, w) in fds {
                if fd.prop != prop {
                    continue;
                }
                found.entry(fd.sig.clone()).or_insert_with(|| Replay {
                    property: prop.clone(),
                    signature: fd.sig.clone(),
                    detail: format!("{} [corpus entry {}]", fd.detail, path.file_name().unwrap().to_string_lossy()),
                    verif_seed: seed,
                    case_seed: u64::MAX - idx as u64,
                    minimised: false,
                    spec: rp.spec.clone(),
                    opt: rp.opt.clone(),
                    mode,
                    writer: w,
                    style: rp.style,
                });
            }
        }
    }
    for h in handles {
        let (s, fnd) = match h.join() {
            Ok(x) => x,
            Err(_) => {
                eprintln!("harness error: worker thread panicked: {}", simwriter::take_panic());
                std::process::exit(2);
            }
        };
        st.merge(s);
        for (k, v) in fnd {
            match found.get(&k) {
                Some(old) if old.case_seed <= v.case_seed => {}
                _ => {
                    found.insert(k, v);
                }
            }
        }
    }
    let wall = t0.elapsed().as_secs_f64();

    // ---- triage: minimise, persist, verify that each replay reproduces
    let known = load_known(&prop);
    let mut violations = 0;
    let mut known_hits = 0;
    let dir = PathBuf::from(format!("{}/replays/{}", verif_root(), prop));
    let _ = std::fs::create_dir_all(&dir);
    let mut lines = Vec::new();
    for (sig, rp) in &found {
        let min = minimise(rp);
        let path = dir.join(format!("{}.json", sanitize(sig)));
        std::fs::write(&path, serde_json::to_string_pretty(&min).unwrap()).expect("write replay");
        // the replay must reproduce in this process before we report it
        let again = check_one(&min.property, &min.spec, min.opt.as_ref(), min.mode, min.writer.as_ref(), min.style);
        if !again.iter().any(|f| &f.sig == sig) {
            eprintln!("harness error: replay {} does not reproduce {}", path.display(), sig);
            std::process::exit(2);
        }
        if let Some(k) = known.iter().find(|k| sig.starts_with(&k.signature_prefix)) {
            known_hits += 1;
            lines.push(format!("KNOWN-FINDING: property={} {} [{}] replay={}", prop, k.what, sig, path.display()));
        } else {
            violations += 1;
            lines.push(format!("VIOLATION property={} replay={}", prop, path.display()));
            lines.push(format!("  signature: {}", sig));
            lines.push(format!("  detail: {}", min.detail));
        }
    }

    // ---- evidence
    let (evaluations, distinct, rule) = if prop == "C04" {
        (
            st.execs + st.frame_checks,
            st.nontrivial.len() as u64,
            "cases = seeded packets (swarm-configured: sizes, label style, OPT, 0..n entries per section over all typed RDATA variants); for each packet and mode {plain, compressed} the reference bytes from build_bytes_vec* are walked by the independent refdns reader (framing) and every writer configuration is executed: std writer kinds x origins {0,2,k} x {empty, pre-filled}; fixed capacities 0..=len+2 (exhaustive up to the tier's length bound, boundary-biased sample above); the simulated device with a hard error at each write/seek/flush call index and at device byte offsets; transparent short writes / EINTR. An execution is non-trivial when a fault actually fired, the capacity was binding, the origin was non-zero or the storage was pre-filled; distinct = distinct (packet, mode, writer configuration) hashes among those, counted exactly up to 2 million per worker thread (32 million in total) and not beyond, so in large batches the number is a lower bound.",
        )
    } else {
        (
            st.ptr_checks,
            st.ptr_nontrivial.len() as u64,
            "cases = seeded packets with heavy suffix sharing (names drawn from a small pool built by prepending labels), 12% of them large enough to cross offset 16383; the compressed output of build_bytes_vec_compressed and of write_compressed_to into devices at origins {0,2,k}, fresh or pre-filled, with transparent faults, is walked by a schema-guided walker that knows the intended name at every position. A message is non-trivial when it contains at least one compression pointer; distinct = distinct (message bytes, origin) hashes among those.",
        )
    };
    let ev = serde_json::json!({
        "property_id": prop,
        "tier": if tier_name == "thorough" { "thorough" } else { "quick" },
        "seed": seed,
        "level": if prop == "C04" { "fault_enumeration" } else { "exploration" },
        "wall_s": wall,
        "violations": violations,
        "coverage": {
            "evaluations": evaluations,
            "distinct_nontrivial": distinct,
            "rule": rule,
            "samples": st.samples,
            "packets": st.cases,
            "corpus_cases_replayed": corpus_replayed,
            "executions_against_real_serialisers": st.execs,
            "executions_per_hour": (st.execs as f64 / wall * 3600.0) as u64,
            "framing_walks": st.frame_checks,
            "pointer_walks": st.ptr_checks,
            "record_types_exercised": st.rtypes.len(),
            "writer_kinds": st.writer_kinds,
            "faults_planned": st.fault_planned,
            "faults_fired": st.fault_fired,
            "capacity_binding_runs": st.capacity_binding,
            "origin_nonzero_runs": st.origin_nonzero,
            "prefilled_runs": st.prefilled,
            "max_message_len": st.max_len,
            "messages_over_16383": st.msgs_over_16k,
            "skipped_over_65535": st.over_64k_skipped,
            "probes": {
                "names_walked": st.ptr.names,
                "pointers_checked": st.ptr.pointers,
                "names_at_no_compression_positions": st.ptr.never_names,
                "repeats_that_must_be_pointers": st.ptr.must_repeats,
                "names_written_beyond_16383": st.ptr.beyond_16k_names,
                "repeats_of_names_first_written_beyond_16383": st.ptr.repeats_of_beyond_16k,
                "walker_desync_left_to_C04": st.ptr.desync,
            },
            "known_findings_hit": known_hits,
            "components": {
                "real": ["simple_dns::Packet::{build_bytes_vec, build_bytes_vec_compressed, write_to, write_compressed_to}", "std::io::Cursor / Vec / &mut [u8] writers"],
                "simulated": ["SimWriter (Write + Seek device with fault plan)"],
                "oracle_only": ["refdns independent reader/walker"],
            },
        },
        "assumptions": [
            "the reference bytes are the same tree's build_bytes_vec*, so a legitimate change of compression strategy cannot alarm",
            "a fault counts only if it fired; capacity faults are implementation independent",
            "packets are built through public constructors within DNS size limits (labels 1..=63, names <= 255, strings <= 255, message <= 65535)",
        ],
    });
    let _ = std::fs::create_dir_all(format!("{}/evidence", verif_root()));
    std::fs::write(format!("{}/evidence/{}.json", verif_root(), prop), serde_json::to_string_pretty(&ev).unwrap()).expect("write evidence");

    for l in &lines {
        println!("{}", l);
    }
    println!(
        "wire-sim {}: {} packets, {} executions, {} distinct non-trivial, {} violation signature(s), {} known, {:.1}s",
        prop, st.cases, st.execs, distinct, violations, known_hits, wall
    );
    if violations > 0 {
        std::process::exit(1);
    }
    // coverage floor: never pass vacuously
    if prop == "C07" && st.ptr.pointers < 100 {
        eprintln!("harness error: insufficient coverage (pointers checked = {})", st.ptr.pointers);
        std::process::exit(2);
    }
    if prop == "C04" && st.nontrivial.len() < 100 {
        eprintln!("harness error: insufficient coverage");
        std::process::exit(2);
    }
    std::process::exit(if violations > 0 { 1 } else { 0 });
}

fn replay(path: &str) -> i32 {
    let s = match std::fs::read_to_string(path) {
        Ok(s) => s,
        Err(e) => {
            eprintln!("harness error: cannot read {}: {}", path, e);
            return 2;
        }
    };
    let rp: Replay = match serde_json::from_str(&s) {
        Ok(r) => r,
        Err(e) => {
            eprintln!("harness error: bad replay file: {}", e);
            return 2;
        }
    };
    let fds = check_one(&rp.property, &rp.spec, rp.opt.as_ref(), rp.mode, rp.writer.as_ref(), rp.style);
    println!("replay {}: mode {:?}, writer {:?}", path, rp.mode, rp.writer);
    for f in &fds {
        println!("  finding {} :: {}", f.sig, f.detail);
    }
    if fds.iter().any(|f| f.sig == rp.signature) {
        println!("VIOLATION property={} replay={}", rp.property, path);
        1
    } else {
        println!("not reproduced: signature {} absent", rp.signature);
        0
    }
}

fn parse_scan(cases: u64) {
    use std::collections::BTreeMap;
    let mut sites: BTreeMap<String, (u64, String)> = BTreeMap::new();
    let mut tried = 0u64;
    for c in 0..cases {
        let mut r = Rng::new(mix(0xACE, c));
        let mut cfg = case_cfg(&mut r, "C04");
        cfg.max_rr = cfg.max_rr.min(3);
        cfg.sizes.blob_max = cfg.sizes.blob_max.min(12);
        let (spec, opt) = gen::packet(&mut r, &cfg);
        let packet = bridge::packet(&spec, opt.as_ref());
        for mode in [Mode::Plain, Mode::Compressed] {
            let (_, Some(bytes)) = build_vec(&packet, mode) else { continue };
            if bytes.len() > 400 {
                continue;
            }
            let mut variants: Vec<Vec<u8>> = Vec::new();
            for cut in 0..bytes.len() {
                variants.push(bytes[..cut].to_vec());
            }
            for i in 0..bytes.len() {
                for d in [1u8, 255, 0x80] {
                    let mut v = bytes.clone();
                    v[i] = v[i].wrapping_add(d);
                    variants.push(v);
                }
            }
            for v in variants {
                tried += 1;
                let (res, _) = simwriter::guarded_parse(&v);
                if let Res::Panic(p) = res {
                    let loc = p.rsplit(" @ ").next().unwrap_or("").to_string();
                    let e = sites.entry(loc).or_insert((0, p.clone()));
                    e.0 += 1;
                }
            }
        }
    }
    println!("{} inputs tried, {} distinct panic sites", tried, sites.len());
    for (loc, (n, msg)) in &sites {
        println!("{:6}  {}   [{}]", n, loc, msg.split(" @ ").next().unwrap_or(""));
    }
}

/// Root of the verification tree: $VERIF_ROOT (set by ./check to its own directory) or /verif.
fn verif_root() -> String {
    std::env::var("VERIF_ROOT").unwrap_or_else(|_| "/verif".to_string())
}
