//! The simulated `Write + Seek` device and the execution of one (packet, mode, writer
//! configuration) case against the real serialisers.

use serde::{Deserialize, Serialize};
use simple_dns::Packet;
use std::io::{self, Cursor, Seek, SeekFrom, Write};
use std::panic::{catch_unwind, AssertUnwindSafe};

#[derive(Clone, Copy, Debug, PartialEq, Eq, Serialize, Deserialize)]
pub enum Mode {
    Plain,
    Compressed,
}

#[derive(Clone, Debug, PartialEq, Eq, Serialize, Deserialize)]
pub enum Fault {
    /// hard error on the n-th write call (1-based)
    ErrOnWrite(u32),
    /// hard error on the n-th seek call (stream_position counts as a seek)
    ErrOnSeek(u32),
    ErrOnFlush,
    /// `Ok(0)` on the n-th write call (write_all turns it into WriteZero)
    ZeroOnWrite(u32),
    /// hard error on the first write that would cross absolute byte N of the device
    ErrAtByte(u64),
    /// transparent: accept only k (>=1) bytes on the n-th write call
    ShortOnWrite(u32, u32),
    /// transparent: `Interrupted` once on the n-th write call
    IntrOnWrite(u32),
    /// transparent: every write accepts at most k bytes
    ChunkAll(u32),
}

impl Fault {
    pub fn is_hard(&self) -> bool {
        !matches!(self, Fault::ShortOnWrite(..) | Fault::IntrOnWrite(..) | Fault::ChunkAll(..))
    }
}

#[derive(Clone, Debug, PartialEq, Eq, Serialize, Deserialize)]
pub enum WriterCfg {
    /// `Vec<u8>` as `Write` (appends). Plain mode only.
    VecAppend { prefill: usize },
    /// `&mut [u8]` as `Write`. Plain mode only.
    Slice { cap: usize },
    /// `Cursor<Vec<u8>>` positioned at `origin` over `prefill` bytes of pattern
    CursorVec { origin: usize, prefill: usize },
    /// `Cursor<&mut Vec<u8>>`
    CursorVecRef { origin: usize, prefill: usize },
    /// `Cursor<&mut [u8]>` of total length `cap` (pattern-filled), positioned at `origin`
    CursorSlice { origin: usize, cap: usize },
    /// the simulated device
    Sim { origin: usize, prefill: usize, cap: Option<usize>, faults: Vec<Fault> },
}

impl WriterCfg {
    pub fn origin(&self) -> usize {
        match self {
            WriterCfg::VecAppend { prefill } => *prefill,
            WriterCfg::Slice { .. } => 0,
            WriterCfg::CursorVec { origin, .. }
            | WriterCfg::CursorVecRef { origin, .. }
            | WriterCfg::CursorSlice { origin, .. }
            | WriterCfg::Sim { origin, .. } => *origin,
        }
    }
    pub fn initial_len(&self) -> usize {
        match self {
            WriterCfg::VecAppend { prefill } => *prefill,
            WriterCfg::Slice { cap } => *cap,
            WriterCfg::CursorVec { prefill, .. } | WriterCfg::CursorVecRef { prefill, .. } => *prefill,
            WriterCfg::CursorSlice { cap, .. } => *cap,
            WriterCfg::Sim { prefill, .. } => *prefill,
        }
    }
    /// total bytes the device can ever hold (None = growable)
    pub fn capacity(&self) -> Option<usize> {
        match self {
            WriterCfg::Slice { cap } | WriterCfg::CursorSlice { cap, .. } => Some(*cap),
            WriterCfg::Sim { cap, .. } => *cap,
            _ => None,
        }
    }
    pub fn needs_seek(&self) -> bool {
        false
    }
    pub fn supports(&self, mode: Mode) -> bool {
        match self {
            WriterCfg::VecAppend { .. } | WriterCfg::Slice { .. } => mode == Mode::Plain,
            _ => true,
        }
    }
    pub fn kind(&self) -> &'static str {
        match self {
            WriterCfg::VecAppend { .. } => "vec",
            WriterCfg::Slice { .. } => "slice",
            WriterCfg::CursorVec { .. } => "cursor-vec",
            WriterCfg::CursorVecRef { .. } => "cursor-vecref",
            WriterCfg::CursorSlice { .. } => "cursor-slice",
            WriterCfg::Sim { .. } => "sim",
        }
    }
}

pub fn pattern(i: usize) -> u8 {
    (i.wrapping_mul(131).wrapping_add(7) & 0xff) as u8 | 0x01
}

pub fn pattern_vec(n: usize) -> Vec<u8> {
    (0..n).map(pattern).collect()
}

pub struct SimWriter {
    pub buf: Vec<u8>,
    pub pos: u64,
    pub cap: Option<usize>,
    pub faults: Vec<Fault>,
    pub fired: Vec<bool>,
    pub writes: u32,
    pub seeks: u32,
    pub flushes: u32,
    intr_done: Vec<bool>,
}

impl SimWriter {
    pub fn new(origin: usize, prefill: usize, cap: Option<usize>, faults: Vec<Fault>) -> Self {
        let n = faults.len();
        SimWriter {
            buf: pattern_vec(prefill),
            pos: origin as u64,
            cap,
            faults,
            fired: vec![false; n],
            writes: 0,
            seeks: 0,
            flushes: 0,
            intr_done: vec![false; n],
        }
    }
}

impl Write for SimWriter {
    fn write(&mut self, data: &[u8]) -> io::Result<usize> {
        self.writes += 1;
        let n = self.writes;
        let mut take = data.len();
        for i in 0..self.faults.len() {
            match self.faults[i] {
                Fault::ErrOnWrite(k) if k == n => {
                    self.fired[i] = true;
                    return Err(io::Error::new(io::ErrorKind::Other, "simulated write error"));
                }
                Fault::ZeroOnWrite(k) if k == n && !data.is_empty() => {
                    self.fired[i] = true;
                    return Ok(0);
                }
                Fault::ErrAtByte(b) if !data.is_empty() && self.pos < b && self.pos + data.len() as u64 > b => {
                    self.fired[i] = true;
                    return Err(io::Error::new(io::ErrorKind::Other, "simulated device error at byte"));
                }
                Fault::IntrOnWrite(k) if k == n && !self.intr_done[i] => {
                    self.intr_done[i] = true;
                    self.fired[i] = true;
                    // the retry is a new call; keep the numbering stable for other faults
                    self.writes -= 1;
                    return Err(io::Error::from(io::ErrorKind::Interrupted));
                }
                Fault::ShortOnWrite(k, m) if k == n && data.len() > m as usize && m >= 1 => {
                    self.fired[i] = true;
                    take = take.min(m as usize);
                }
                Fault::ChunkAll(m) if data.len() > m as usize && m >= 1 => {
                    self.fired[i] = true;
                    take = take.min(m as usize);
                }
                _ => {}
            }
        }
        let pos = self.pos as usize;
        if let Some(cap) = self.cap {
            if pos >= cap {
                return Ok(0);
            }
            take = take.min(cap - pos);
        }
        if pos > self.buf.len() {
            self.buf.resize(pos, 0);
        }
        let end = pos + take;
        if end > self.buf.len() {
            self.buf.resize(end, 0);
        }
        self.buf[pos..end].copy_from_slice(&data[..take]);
        self.pos = end as u64;
        Ok(take)
    }

    fn flush(&mut self) -> io::Result<()> {
        self.flushes += 1;
        for i in 0..self.faults.len() {
            if self.faults[i] == Fault::ErrOnFlush {
                self.fired[i] = true;
                return Err(io::Error::new(io::ErrorKind::Other, "simulated flush error"));
            }
        }
        Ok(())
    }
}

impl Seek for SimWriter {
    fn seek(&mut self, to: SeekFrom) -> io::Result<u64> {
        self.seeks += 1;
        let n = self.seeks;
        for i in 0..self.faults.len() {
            if self.faults[i] == Fault::ErrOnSeek(n) {
                self.fired[i] = true;
                return Err(io::Error::new(io::ErrorKind::Other, "simulated seek error"));
            }
        }
        let np: i128 = match to {
            SeekFrom::Start(p) => p as i128,
            SeekFrom::End(d) => self.buf.len() as i128 + d as i128,
            SeekFrom::Current(d) => self.pos as i128 + d as i128,
        };
        if np < 0 {
            return Err(io::Error::new(io::ErrorKind::InvalidInput, "seek before start"));
        }
        self.pos = np as u64;
        Ok(self.pos)
    }
}

#[derive(Clone, Debug)]
pub enum Res {
    Ok,
    Err(String),
    Panic(String),
}

#[derive(Clone, Debug)]
pub struct Outcome {
    pub res: Res,
    /// the device content after the call
    pub buf: Vec<u8>,
    pub hard_fired: bool,
    pub transparent_fired: bool,
    pub calls: (u32, u32, u32),
}

thread_local! {
    static QUIET: std::cell::Cell<bool> = const { std::cell::Cell::new(false) };
    static LAST_PANIC: std::cell::RefCell<Option<String>> = const { std::cell::RefCell::new(None) };
}

pub fn install_quiet_panic_hook() {
    static ONCE: std::sync::Once = std::sync::Once::new();
    ONCE.call_once(|| {
        std::panic::set_hook(Box::new(|info| {
            let msg = if let Some(s) = info.payload().downcast_ref::<&str>() {
                s.to_string()
            } else if let Some(s) = info.payload().downcast_ref::<String>() {
                s.clone()
            } else {
                "<panic>".into()
            };
            let loc = info.location().map(|l| format!("{}:{}", l.file(), l.line())).unwrap_or_default();
            if !QUIET.with(|q| q.get()) {
                eprintln!("harness panic: {} @ {}", msg, loc);
            }
            LAST_PANIC.with(|p| *p.borrow_mut() = Some(format!("{} @ {}", msg, loc)));
        }));
    });
}

pub fn take_panic() -> String {
    LAST_PANIC.with(|p| p.borrow_mut().take()).unwrap_or_else(|| "<unknown panic>".into())
}

/// Run a call into the code under test with panics captured quietly.
fn guarded<T>(f: impl FnOnce() -> simple_dns::Result<T>) -> (Res, Option<T>) {
    QUIET.with(|q| q.set(true));
    let r = catch_unwind(AssertUnwindSafe(f));
    QUIET.with(|q| q.set(false));
    conv(r)
}

fn conv<T>(r: Result<simple_dns::Result<T>, Box<dyn std::any::Any + Send>>) -> (Res, Option<T>) {
    match r {
        Ok(Ok(v)) => (Res::Ok, Some(v)),
        Ok(Err(e)) => (Res::Err(format!("{:?}", e)), None),
        Err(_) => (Res::Panic(take_panic()), None),
    }
}

/// The vector-returning entry points (the reference bytes).
pub fn build_vec(p: &Packet, mode: Mode) -> (Res, Option<Vec<u8>>) {
    guarded(|| match mode {
        Mode::Plain => p.build_bytes_vec(),
        Mode::Compressed => p.build_bytes_vec_compressed(),
    })
}

fn call<W: Write + Seek>(p: &Packet, mode: Mode, w: &mut W) -> Res {
    guarded(|| match mode {
        Mode::Plain => p.write_to(w),
        Mode::Compressed => p.write_compressed_to(w),
    })
    .0
}

/// Run one writer-based case.
pub fn exec(p: &Packet, mode: Mode, cfg: &WriterCfg) -> Outcome {
    match cfg {
        WriterCfg::VecAppend { prefill } => {
            let mut v = pattern_vec(*prefill);
            let res = guarded(|| p.write_to(&mut v)).0;
            Outcome { res, buf: v, hard_fired: false, transparent_fired: false, calls: (0, 0, 0) }
        }
        WriterCfg::Slice { cap } => {
            let mut backing = pattern_vec(*cap);
            let res = {
                let mut s: &mut [u8] = &mut backing[..];
                guarded(|| p.write_to(&mut s)).0
            };
            Outcome { res, buf: backing, hard_fired: false, transparent_fired: false, calls: (0, 0, 0) }
        }
        WriterCfg::CursorVec { origin, prefill } => {
            let mut c = Cursor::new(pattern_vec(*prefill));
            c.set_position(*origin as u64);
            let res = call(p, mode, &mut c);
            Outcome { res, buf: c.into_inner(), hard_fired: false, transparent_fired: false, calls: (0, 0, 0) }
        }
        WriterCfg::CursorVecRef { origin, prefill } => {
            let mut v = pattern_vec(*prefill);
            let res = {
                let mut c = Cursor::new(&mut v);
                c.set_position(*origin as u64);
                call(p, mode, &mut c)
            };
            Outcome { res, buf: v, hard_fired: false, transparent_fired: false, calls: (0, 0, 0) }
        }
        WriterCfg::CursorSlice { origin, cap } => {
            let mut backing = pattern_vec(*cap);
            let res = {
                let mut c = Cursor::new(&mut backing[..]);
                c.set_position(*origin as u64);
                call(p, mode, &mut c)
            };
            Outcome { res, buf: backing, hard_fired: false, transparent_fired: false, calls: (0, 0, 0) }
        }
        WriterCfg::Sim { origin, prefill, cap, faults } => {
            let mut w = SimWriter::new(*origin, *prefill, *cap, faults.clone());
            let res = call(p, mode, &mut w);
            let hard = w.faults.iter().zip(&w.fired).any(|(f, fired)| *fired && f.is_hard());
            let tr = w.faults.iter().zip(&w.fired).any(|(f, fired)| *fired && !f.is_hard());
            Outcome { res, buf: w.buf, hard_fired: hard, transparent_fired: tr, calls: (w.writes, w.seeks, w.flushes) }
        }
    }
}

/// Developer aid: parse arbitrary bytes with panics captured.
pub fn guarded_parse(bytes: &[u8]) -> (Res, Option<()>) {
    guarded(|| Packet::parse(bytes).map(|_| ()))
}
