//! Oracles of the wire simulator.
//!
//! C04: what the (real or simulated) device received is a well-framed message consisting of
//!      exactly the intended entries, identical for every writer, with errors instead of
//!      panics / silent truncation.
//! C07: every compression pointer in the device's content is valid relative to the message
//!      origin, expands to the intended name, is absent where forbidden and present where a
//!      question/owner/RFC 1035 name repeats.

use std::collections::{HashMap, HashSet};

use dnsgen::bridge::OptSpec;
use refdns::{t, Comp, DecErr, Labels, MsgSpec, Rec, F};

use crate::simwriter::{pattern, Mode, Outcome, Res, WriterCfg};

#[derive(Clone, Debug, PartialEq, Eq)]
pub struct Finding {
    pub prop: &'static str,
    pub sig: String,
    pub detail: String,
}

fn f(prop: &'static str, sig: String, detail: String) -> Finding {
    Finding { prop, sig, detail }
}

fn type_name(ty: u16) -> String {
    format!("t{}", ty)
}

fn decerr_kind(e: &DecErr) -> &'static str {
    match e {
        DecErr::ShortHeader => "short-header",
        DecErr::Truncated(..) => "truncated",
        DecErr::BadLabelType(_) => "bad-label-type",
        DecErr::LabelTooLong(_) => "label-too-long",
        DecErr::NameTooLong(_) => "name-too-long",
        DecErr::ForwardPointer(_) => "forward-pointer",
        DecErr::PointerLoop(_) => "pointer-loop",
        DecErr::RdataOverrun(_) => "rdata-overrun",
        DecErr::Trailing(_) => "trailing-bytes",
    }
}

/// C04 framing oracle over a finished message.
pub fn check_frame(bytes: &[u8], spec: &MsgSpec, opt: Option<&OptSpec>, mode: Mode) -> Vec<Finding> {
    let mut out = Vec::new();
    let m = match refdns::decode(bytes, true) {
        Ok(m) => m,
        Err(e) => {
            out.push(f("C04", format!("frame:undecodable:{}", decerr_kind(&e)), format!("{:?}", e)));
            return out;
        }
    };
    let want = [
        spec.questions.len(),
        spec.answers.len(),
        spec.authority.len(),
        spec.additional.len() + opt.is_some() as usize,
    ];
    for i in 0..4 {
        if m.counts[i] as usize != want[i] {
            out.push(f(
                "C04",
                format!("frame:count:{}", ["qd", "an", "ns", "ar"][i]),
                format!("header count {} but {} entries intended", m.counts[i], want[i]),
            ));
            return out;
        }
    }
    for (i, (q, w)) in m.questions.iter().zip(&spec.questions).enumerate() {
        if q != w {
            out.push(f("C04", "frame:question".into(), format!("question {} is {:?}, intended {:?}", i, q, w)));
            return out;
        }
    }
    let check_rr = |out: &mut Vec<Finding>, sec: &str, i: usize, rr: &refdns::RR, w: &Rec| {
        let canon = w.rdata_canon();
        let ty = type_name(w.rtype);
        if rr.owner != w.owner || rr.rtype != w.rtype || rr.class() != w.class || rr.cache_flush() != w.cache_flush || rr.ttl != w.ttl {
            out.push(f("C04", format!("frame:entry-header:{}", ty), format!("{}[{}] header differs from the intended record", sec, i)));
            return;
        }
        if mode == Mode::Plain && rr.rdlen != canon.len() {
            out.push(f(
                "C04",
                format!("frame:rdlength:{}", ty),
                format!("{}[{}] RDLENGTH {} but {} RDATA bytes intended", sec, i, rr.rdlen, canon.len()),
            ));
            return;
        }
        if rr.rdata_canon.len() != canon.len() {
            out.push(f(
                "C04",
                format!("frame:rdlength:{}", ty),
                format!("{}[{}] RDATA delimited by RDLENGTH expands to {} bytes, {} intended", sec, i, rr.rdata_canon.len(), canon.len()),
            ));
            return;
        }
        if rr.rdata_canon != canon {
            out.push(f("C04", format!("frame:rdata-content:{}", ty), format!("{}[{}] RDATA bytes differ from the intended record", sec, i)));
        }
    };
    // stop at the first framing finding: whatever follows is read from the wrong place
    for (i, (rr, w)) in m.answers.iter().zip(&spec.answers).enumerate() {
        check_rr(&mut out, "answer", i, rr, w);
        if !out.is_empty() {
            return out;
        }
    }
    for (i, (rr, w)) in m.authority.iter().zip(&spec.authority).enumerate() {
        check_rr(&mut out, "authority", i, rr, w);
        if !out.is_empty() {
            return out;
        }
    }
    // The pseudo-record may sit anywhere in the additional section (RFC 6891 §6.1.1; the
    // statement only says it is counted once): take the first root-owned OPT whose removal
    // leaves the intended records in their order.
    let mut add_rest: Vec<&refdns::RR> = m.additional.iter().collect();
    if let Some(o) = opt {
        let want_len: usize = o.codes.iter().map(|(_, d)| d.len() + 4).sum();
        let cands: Vec<usize> = (0..m.additional.len()).filter(|&i| m.additional[i].rtype == t::OPT && m.additional[i].owner.is_empty()).collect();
        let aligned = |p: usize| -> bool {
            m.additional.iter().enumerate().filter(|(i, _)| *i != p).map(|(_, r)| r).zip(&spec.additional).all(|(r, w)| r.rtype == w.rtype && r.owner == w.owner)
        };
        match cands.iter().copied().find(|&p| aligned(p)).or(cands.first().copied()) {
            None => out.push(f("C04", "frame:opt-missing".into(), "no root-owned OPT pseudo-record in the additional section".into())),
            Some(p) => {
                let rr = &m.additional[p];
                if rr.rdlen != want_len {
                    out.push(f("C04", "frame:rdlength:t41".into(), format!("OPT RDLENGTH {} but {} option bytes intended", rr.rdlen, want_len)));
                }
                add_rest.remove(p);
            }
        }
    }
    let add = add_rest.into_iter();
    let n_opt = m.additional.iter().filter(|r| r.rtype == t::OPT).count();
    let n_opt_intended = opt.is_some() as usize + spec.additional.iter().filter(|r| r.rtype == t::OPT).count();
    if n_opt != n_opt_intended {
        out.push(f("C04", "frame:opt-count".into(), format!("{} OPT records written, {} intended", n_opt, n_opt_intended)));
    }
    if !out.is_empty() {
        return out;
    }
    for (i, (rr, w)) in add.zip(&spec.additional).enumerate() {
        check_rr(&mut out, "additional", i, rr, w);
        if !out.is_empty() {
            return out;
        }
    }
    out
}

/// Expected device content: the initial content with `r` written at `origin`.
fn expected_buffer(cfg: &WriterCfg, r: &[u8]) -> Vec<u8> {
    let mut e: Vec<u8> = (0..cfg.initial_len()).map(pattern).collect();
    let o = cfg.origin();
    if e.len() < o + r.len() {
        e.resize(o + r.len(), 0);
    }
    e[o..o + r.len()].copy_from_slice(r);
    e
}

fn origin_class(cfg: &WriterCfg) -> &'static str {
    let pre = cfg.initial_len() > cfg.origin();
    match (cfg.origin() == 0, pre) {
        (true, false) => "o0",
        (true, true) => "o0-prefilled",
        (false, false) => "oN",
        (false, true) => "oN-prefilled",
    }
}

/// C04 "all writers agree / error instead of truncation" oracle for one execution.
pub fn check_writer(o: &Outcome, r: &[u8], cfg: &WriterCfg, mode: Mode) -> Vec<Finding> {
    let mut out = Vec::new();
    let tag = format!("{}:{}:{}", cfg.kind(), if mode == Mode::Plain { "plain" } else { "compressed" }, origin_class(cfg));
    if let Res::Panic(p) = &o.res {
        out.push(f("C04", format!("writer:panic:{}", tag), p.clone()));
        return out;
    }
    let fits = match cfg.capacity() {
        Some(cap) => cfg.origin() + r.len() <= cap,
        None => true,
    };
    let must_fail = o.hard_fired || !fits;
    match (&o.res, must_fail) {
        (Res::Ok, true) => {
            let why = if !fits { "too-small" } else { "after-hard-fault" };
            out.push(f(
                "C04",
                format!("writer:ok-{}:{}", why, tag),
                format!("returned Ok although {} (message {} bytes, origin {}, capacity {:?}, calls {:?})",
                    if !fits { "the writer is too small" } else { "the device reported an error" }, r.len(), cfg.origin(), cfg.capacity(), o.calls),
            ));
        }
        (Res::Err(e), false) => {
            let why = if o.transparent_fired { "with-transparent-fault" } else { "without-fault" };
            out.push(f("C04", format!("writer:err-{}:{}", why, tag), format!("returned Err({}) on a writer that can hold the message", e)));
        }
        (Res::Ok, false) => {
            let e = expected_buffer(cfg, r);
            if o.buf != e {
                let ori = cfg.origin();
                let region_ok = o.buf.len() >= ori + r.len() && &o.buf[ori..ori + r.len()] == r;
                let what = if !region_ok { "differs" } else { "touched-outside" };
                let first = o.buf.iter().zip(e.iter()).position(|(a, b)| a != b).unwrap_or(o.buf.len().min(e.len()));
                out.push(f(
                    "C04",
                    format!("writer:{}:{}", what, tag),
                    format!("device content differs from build_bytes_vec* at byte {} (device {} bytes, expected {}, origin {})", first, o.buf.len(), e.len(), ori),
                ));
            }
        }
        (Res::Err(_), true) => {}
        (Res::Panic(_), _) => unreachable!(),
    }
    out
}

// ------------------------------------------------------------------ C07

#[derive(Default, Debug, Clone)]
pub struct PtrStats {
    pub names: u64,
    pub pointers: u64,
    pub never_names: u64,
    pub must_repeats: u64,
    pub beyond_16k_names: u64,
    pub repeats_of_beyond_16k: u64,
    pub desync: u64,
}

struct Walk<'a> {
    b: &'a [u8],
    pos: usize,
    label_starts: HashSet<usize>,
    /// full names already written at a Must position -> smallest start offset
    seen_must: HashMap<Labels, usize>,
    out: Vec<Finding>,
    stats: PtrStats,
    origin_tag: &'static str,
}

impl<'a> Walk<'a> {
    fn name(&mut self, intended: &Labels, comp: Comp, what: &str) -> Result<(), ()> {
        self.stats.names += 1;
        if comp == Comp::Never {
            self.stats.never_names += 1;
        }
        let at = self.pos;
        let mut pos = at;
        let mut i = 0usize;
        let mut new_starts = Vec::new();
        let mut ptr: Option<(usize, usize)> = None;
        loop {
            if pos >= self.b.len() {
                self.stats.desync += 1;
                return Err(());
            }
            let c = self.b[pos];
            if c == 0 {
                pos += 1;
                break;
            }
            if c & 0xC0 == 0xC0 {
                if pos + 2 > self.b.len() {
                    self.stats.desync += 1;
                    return Err(());
                }
                ptr = Some((pos, (((c & 0x3F) as usize) << 8) | self.b[pos + 1] as usize));
                pos += 2;
                break;
            }
            if c & 0xC0 != 0 {
                self.stats.desync += 1;
                return Err(());
            }
            let l = c as usize;
            if pos + 1 + l > self.b.len() || i >= intended.len() || self.b[pos + 1..pos + 1 + l] != intended[i][..] {
                // in-place labels are not the intended ones: framing/content problem, not ours
                self.stats.desync += 1;
                return Err(());
            }
            new_starts.push(pos);
            pos += 1 + l;
            i += 1;
        }
        let wire_len = pos - at;
        if at > 16383 && !intended.is_empty() {
            self.stats.beyond_16k_names += 1;
        }
        match ptr {
            None => {
                if i != intended.len() {
                    self.stats.desync += 1;
                    return Err(());
                }
            }
            Some((pat, target)) => {
                self.stats.pointers += 1;
                let tag = self.origin_tag;
                if comp == Comp::Never {
                    self.out.push(f("C07", format!("ptr:forbidden:{}:{}", what, tag), format!("pointer at {} inside a name that must be written in full", pat)));
                }
                if target >= pat {
                    self.out.push(f("C07", format!("ptr:not-backwards:{}", tag), format!("pointer at {} -> {}", pat, target)));
                } else if !self.label_starts.contains(&target) {
                    self.out.push(f(
                        "C07",
                        format!("ptr:not-a-name-position:{}", tag),
                        format!("pointer at {} -> {} which is not where labels of an earlier-written name begin", pat, target),
                    ));
                } else {
                    match refdns::decode_name(self.b, target) {
                        Ok((labels, ..)) if labels[..] == intended[i..] => {}
                        Ok((labels, ..)) => self.out.push(f(
                            "C07",
                            format!("ptr:wrong-expansion:{}", tag),
                            format!("pointer at {} -> {} expands to {} but {} intended", pat, target, refdns::name_to_string(&labels), refdns::name_to_string(&intended[i..].to_vec())),
                        )),
                        Err(e) => self.out.push(f("C07", format!("ptr:wrong-expansion:{}", tag), format!("pointer at {} -> {}: {:?}", pat, target, e))),
                    }
                }
            }
        }
        if comp == Comp::Must && !intended.is_empty() {
            if let Some(&first) = self.seen_must.get(intended) {
                if first <= 16383 {
                    self.stats.must_repeats += 1;
                    if wire_len != 2 {
                        self.out.push(f(
                            "C07",
                            format!("ptr:repeat-not-compressed:{}:{}", what, self.origin_tag),
                            format!("{} at {} repeats a name first written at {} but occupies {} bytes", refdns::name_to_string(intended), at, first, wire_len),
                        ));
                    }
                } else {
                    self.stats.repeats_of_beyond_16k += 1;
                }
            }
            let e = self.seen_must.entry(intended.clone()).or_insert(at);
            if at < *e {
                *e = at;
            }
        }
        self.label_starts.extend(new_starts);
        self.pos = pos;
        Ok(())
    }

    fn skip(&mut self, n: usize) -> Result<(), ()> {
        if self.pos + n > self.b.len() {
            self.stats.desync += 1;
            return Err(());
        }
        self.pos += n;
        Ok(())
    }

    fn rec(&mut self, r: &Rec) -> Result<(), ()> {
        self.name(&r.owner, Comp::Must, "owner")?;
        self.skip(8)?;
        if self.pos + 2 > self.b.len() {
            self.stats.desync += 1;
            return Err(());
        }
        let rdlen = u16::from_be_bytes([self.b[self.pos], self.b[self.pos + 1]]) as usize;
        self.pos += 2;
        let start = self.pos;
        let ty = format!("rdata-t{}", r.rtype);
        for fl in &r.fields {
            match fl {
                F::U8(_) => self.skip(1)?,
                F::U16(_) => self.skip(2)?,
                F::U32(_) => self.skip(4)?,
                F::U64(_) => self.skip(8)?,
                F::U128(_) => self.skip(16)?,
                F::Str(s) => self.skip(1 + s.len())?,
                F::Bytes(b) => self.skip(b.len())?,
                F::Name(n, c) => self.name(n, *c, &ty)?,
            }
        }
        if self.pos - start != rdlen {
            // RDLENGTH disagrees with what was written: C04's business
            self.stats.desync += 1;
            return Err(());
        }
        Ok(())
    }
}

/// C07 oracle over one compressed message (message-relative offsets).
pub fn check_pointers(bytes: &[u8], spec: &MsgSpec, opt: Option<&OptSpec>, origin_nonzero: bool) -> (Vec<Finding>, PtrStats) {
    let mut w = Walk {
        b: bytes,
        pos: 12,
        label_starts: HashSet::new(),
        seen_must: HashMap::new(),
        out: Vec::new(),
        stats: PtrStats::default(),
        origin_tag: if origin_nonzero { "oN" } else { "o0" },
    };
    if bytes.len() < 12 {
        w.stats.desync += 1;
        return (w.out, w.stats);
    }
    let _ = (|| -> Result<(), ()> {
        for q in &spec.questions {
            w.name(&q.name, Comp::Must, "question")?;
            w.skip(4)?;
        }
        for r in &spec.answers {
            w.rec(r)?;
        }
        for r in &spec.authority {
            w.rec(r)?;
        }
        // the OPT pseudo-record may be written anywhere in the additional section: it is
        // skipped where the bytes show a root-owned type-41 record that the next intended
        // record does not account for
        let mut opt_left = opt;
        let opt_here = |w: &Walk| w.b.len() >= w.pos + 3 && w.b[w.pos] == 0 && w.b[w.pos + 1] == 0 && w.b[w.pos + 2] == 41;
        for r in &spec.additional {
            if let Some(o) = opt_left {
                if opt_here(&w) && !(r.rtype == t::OPT && r.owner.is_empty()) {
                    w.skip(1 + 10)?;
                    let l: usize = o.codes.iter().map(|(_, d)| d.len() + 4).sum();
                    w.skip(l)?;
                    opt_left = None;
                }
            }
            w.rec(r)?;
        }
        if let Some(o) = opt_left {
            w.skip(1 + 10)?;
            let l: usize = o.codes.iter().map(|(_, d)| d.len() + 4).sum();
            w.skip(l)?;
        }
        Ok(())
    })();
    (w.out, w.stats)
}
