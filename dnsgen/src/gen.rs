//! Seeded generators of names, records and whole messages.

use refdns::{t, Comp, Labels, MsgSpec, Rec, F, Q};
use simrt::rng::Rng;

use crate::bridge::OptSpec;

pub const CLASSES: [u16; 5] = [1, 2, 3, 4, 254];

/// All record types simple-dns has a typed representation for (OPT excluded: pseudo-record).
pub const TYPED: [u16; 39] = [
    t::A, t::AAAA, t::NS, t::MD, t::MF, t::CNAME, t::MB, t::MG, t::MR, t::PTR, t::HINFO, t::MINFO,
    t::MX, t::TXT, t::SOA, t::WKS, t::SRV, t::RP, t::AFSDB, t::ISDN, t::RT, t::NAPTR, t::NSAP,
    t::NSAP_PTR, t::LOC, t::CAA, t::SVCB, t::HTTPS, t::EUI48, t::EUI64, t::CERT, t::ZONEMD, t::KX,
    t::IPSECKEY, t::DNSKEY, t::RRSIG, t::DS, t::NSEC, t::DHCID,
];

pub const QTYPE_SPECIALS: [u16; 5] = [t::IXFR, t::AXFR, t::MAILB, t::MAILA, t::ANY];

#[derive(Clone, Copy, Debug, PartialEq, Eq)]
pub enum LabelStyle {
    /// lower-case host-name characters only
    Plain,
    /// arbitrary bytes (wire-valid: 1..=63 bytes)
    Binary,
}

pub fn label(r: &mut Rng, style: LabelStyle, max: usize) -> Vec<u8> {
    let len = 1 + r.usize_below(max.clamp(1, 63));
    match style {
        LabelStyle::Plain => {
            const A: &[u8] = b"abcdefghijklmnopqrstuvwxyz0123456789";
            (0..len).map(|_| *r.pick(A)).collect()
        }
        LabelStyle::Binary => r.bytes(len),
    }
}

/// A pool of names with heavy suffix sharing: a few base domains, then names built by
/// prepending labels to existing pool members.
pub fn name_pool(r: &mut Rng, n: usize, style: LabelStyle, max_label: usize) -> Vec<Labels> {
    let mut pool: Vec<Labels> = vec![vec![b"local".to_vec()], vec![b"_tcp".to_vec(), b"local".to_vec()]];
    if r.chance(1, 4) {
        pool.push(vec![]); // root
    }
    while pool.len() < n {
        let base = pool[r.usize_below(pool.len())].clone();
        let mut nm = base.clone();
        let add = 1 + r.usize_below(2);
        for _ in 0..add {
            let l = if r.chance(1, 3) && !pool.is_empty() {
                // reuse a label seen elsewhere: names differing only in a leading/trailing label
                let other = &pool[r.usize_below(pool.len())];
                if other.is_empty() {
                    label(r, style, max_label)
                } else {
                    let mut l = other[r.usize_below(other.len())].clone();
                    if r.chance(1, 6) {
                        // same label up to ASCII case: must not be conflated by a compression table
                        for b in l.iter_mut() {
                            if b.is_ascii_alphabetic() && r.chance(1, 2) {
                                *b ^= 0x20;
                            }
                        }
                    }
                    l
                }
            } else {
                label(r, style, max_label)
            };
            nm.insert(0, l);
        }
        if refdns::name_wire_len(&nm) <= 255 {
            pool.push(nm);
        }
    }
    pool
}

fn pick_name(r: &mut Rng, pool: &[Labels]) -> Labels {
    pool[r.usize_below(pool.len())].clone()
}

fn blob(r: &mut Rng, max: usize) -> Vec<u8> {
    let n = match r.below(10) {
        0 => 0,
        1 => max,
        _ => r.usize_below(max + 1),
    };
    r.bytes(n)
}

fn cstr(r: &mut Rng, max: usize) -> Vec<u8> {
    blob(r, max.min(255))
}

/// Size knobs for generated RDATA.
#[derive(Clone, Copy, Debug)]
pub struct Sizes {
    pub blob_max: usize,
    pub txt_strings_max: usize,
    pub txt_string_max: usize,
}

impl Default for Sizes {
    fn default() -> Self {
        Sizes { blob_max: 40, txt_strings_max: 4, txt_string_max: 40 }
    }
}

pub fn rdata_fields(r: &mut Rng, rtype: u16, pool: &[Labels], sz: &Sizes) -> Vec<F> {
    use Comp::*;
    let nm = |r: &mut Rng, c: Comp| F::Name(pick_name(r, pool), c);
    match rtype {
        t::A => vec![F::U32(r.next_u64() as u32)],
        t::AAAA => vec![F::U128(((r.next_u64() as u128) << 64) | r.next_u64() as u128)],
        t::NS | t::MD | t::MF | t::CNAME | t::MB | t::MG | t::MR | t::PTR => vec![nm(r, Must)],
        t::NSAP_PTR => vec![nm(r, May)],
        t::HINFO | t::ISDN => vec![F::Str(cstr(r, sz.blob_max)), F::Str(cstr(r, sz.blob_max))],
        t::MINFO => vec![nm(r, Must), nm(r, Must)],
        t::MX => vec![F::U16(r.next_u64() as u16), nm(r, Must)],
        t::TXT if r.chance(1, 5) => {
            // a text cut into 254-byte strings, lengths around the chunk boundaries
            let len = match r.below(8) {
                0 => 253,
                1 => 254,
                2 => 255,
                3 => 507,
                4 => 508,
                5 => 509,
                6 => 762,
                _ => r.usize_below(600),
            };
            const A: &[u8] = b"abcdefghijklmnopqrstuvwxyz =;0123456789";
            let text: Vec<u8> = (0..len).map(|_| *r.pick(A)).collect();
            if text.is_empty() {
                vec![F::Str(vec![])]
            } else {
                text.chunks(254).map(|c| F::Str(c.to_vec())).collect()
            }
        }
        t::TXT => {
            let n = r.usize_below(sz.txt_strings_max + 1);
            if n == 0 {
                vec![F::Str(vec![])]
            } else {
                (0..n)
                    .map(|_| {
                        // non-empty strings only: a lone empty string is indistinguishable from
                        // the empty TXT on the wire
                        let mut s = cstr(r, sz.txt_string_max);
                        if s.is_empty() {
                            s.push(b'x');
                        }
                        F::Str(s)
                    })
                    .collect()
            }
        }
        t::SOA => vec![
            nm(r, Must),
            nm(r, Must),
            F::U32(r.next_u64() as u32),
            F::U32(r.next_u64() as u32),
            F::U32(r.next_u64() as u32),
            F::U32(r.next_u64() as u32),
            F::U32(r.next_u64() as u32),
        ],
        t::WKS => vec![F::U32(r.next_u64() as u32), F::U8(r.next_u64() as u8), F::Bytes(blob(r, sz.blob_max))],
        t::SRV => vec![F::U16(r.next_u64() as u16), F::U16(r.next_u64() as u16), F::U16(r.next_u64() as u16), nm(r, Never)],
        t::RP => vec![nm(r, May), nm(r, May)],
        t::AFSDB | t::RT => vec![F::U16(r.next_u64() as u16), nm(r, May)],
        t::NAPTR => vec![
            F::U16(r.next_u64() as u16),
            F::U16(r.next_u64() as u16),
            F::Str(cstr(r, 8)),
            F::Str(cstr(r, sz.blob_max)),
            F::Str(cstr(r, sz.blob_max)),
            nm(r, Never),
        ],
        t::NSAP => vec![F::Bytes(r.bytes(20))],
        t::LOC => vec![
            F::U8(0),
            F::U8(r.next_u64() as u8),
            F::U8(r.next_u64() as u8),
            F::U8(r.next_u64() as u8),
            F::U32(r.next_u64() as u32),
            F::U32(r.next_u64() as u32),
            F::U32(r.next_u64() as u32),
        ],
        t::CAA => vec![F::U8(r.next_u64() as u8), F::Str(cstr(r, 15)), F::Bytes(blob(r, sz.blob_max))],
        t::SVCB | t::HTTPS => {
            let mut v = vec![F::U16(r.next_u64() as u16), nm(r, Never)];
            let n = r.usize_below(4);
            let mut key = 0u16;
            for i in 0..n {
                key = if i == 0 { r.below(3) as u16 } else { key + 1 + r.below(3) as u16 };
                let val = match key {
                    0 => {
                        let k = 2 * r.usize_below(3);
                        r.bytes(k)
                    }
                    2 => vec![],
                    3 => r.bytes(2),
                    4 => {
                        let k = 4 * (1 + r.usize_below(2));
                        r.bytes(k)
                    }
                    6 => r.bytes(16),
                    _ => blob(r, sz.blob_max),
                };
                v.push(F::U16(key));
                v.push(F::U16(val.len() as u16));
                v.push(F::Bytes(val));
            }
            v
        }
        t::EUI48 => vec![F::Bytes(r.bytes(6))],
        t::EUI64 => vec![F::Bytes(r.bytes(8))],
        t::CERT => vec![F::U16(r.next_u64() as u16), F::U16(r.next_u64() as u16), F::U8(r.next_u64() as u8), F::Bytes(blob(r, sz.blob_max))],
        t::ZONEMD => vec![F::U32(r.next_u64() as u32), F::U8(r.next_u64() as u8), F::U8(r.next_u64() as u8), F::Bytes(blob(r, sz.blob_max))],
        t::KX => vec![F::U16(r.next_u64() as u16), nm(r, Never)],
        t::IPSECKEY => {
            let gw = r.below(4) as u8;
            let mut v = vec![F::U8(r.next_u64() as u8), F::U8(gw), F::U8(r.next_u64() as u8)];
            match gw {
                0 => {}
                1 => v.push(F::U32(r.next_u64() as u32)),
                2 => v.push(F::U128(((r.next_u64() as u128) << 64) | r.next_u64() as u128)),
                _ => v.push(nm(r, Never)),
            }
            v.push(F::Bytes(blob(r, sz.blob_max)));
            v
        }
        t::DNSKEY => vec![F::U16(r.next_u64() as u16), F::U8(r.next_u64() as u8), F::U8(r.next_u64() as u8), F::Bytes(blob(r, sz.blob_max))],
        t::RRSIG => vec![
            F::U16(r.next_u64() as u16),
            F::U8(r.next_u64() as u8),
            F::U8(r.next_u64() as u8),
            F::U32(r.next_u64() as u32),
            F::U32(r.next_u64() as u32),
            F::U32(r.next_u64() as u32),
            F::U16(r.next_u64() as u16),
            nm(r, Never),
            F::Bytes(blob(r, sz.blob_max)),
        ],
        t::DS => vec![F::U16(r.next_u64() as u16), F::U8(r.next_u64() as u8), F::U8(r.next_u64() as u8), F::Bytes(blob(r, sz.blob_max))],
        t::NSEC => {
            let mut v = vec![nm(r, Never)];
            let n = r.usize_below(3);
            let mut w = 0u8;
            for i in 0..n {
                if i > 0 {
                    w += 1 + r.below(3) as u8;
                } else {
                    w = r.below(3) as u8;
                }
                // zero-length bitmaps are accepted by the parser and constructible by callers
                let bl = if r.chance(1, 6) { 0 } else { 1 + r.usize_below(32.min(sz.blob_max.max(1))) };
                let bm = r.bytes(bl);
                v.push(F::U8(w));
                v.push(F::U8(bm.len() as u8));
                v.push(F::Bytes(bm));
            }
            v
        }
        t::DHCID => vec![F::U16(r.next_u64() as u16), F::U8(r.next_u64() as u8), F::Bytes(blob(r, sz.blob_max))],
        _ => {
            // NULL / unknown type: opaque non-empty bytes
            let mut b = blob(r, sz.blob_max);
            if b.is_empty() {
                b.push(0);
            }
            vec![F::Bytes(b)]
        }
    }
}

pub fn any_rtype(r: &mut Rng) -> u16 {
    match r.below(20) {
        0 => t::NULL,
        1 => t::X25,
        2 => 65280 + r.below(200) as u16, // private-use unknown type
        _ => *r.pick(&TYPED),
    }
}

pub fn record(r: &mut Rng, owner: Labels, rtype: u16, pool: &[Labels], sz: &Sizes) -> Rec {
    let fields = if r.chance(1, 25) { vec![] } else { rdata_fields(r, rtype, pool, sz) };
    Rec {
        owner,
        rtype,
        class: if r.chance(3, 4) { 1 } else { *r.pick(&CLASSES) },
        cache_flush: r.chance(1, 5),
        ttl: match r.below(6) {
            0 => 0,
            1 => u32::MAX,
            2 => 0x8000_0000,
            _ => r.next_u64() as u32,
        },
        fields,
    }
}

pub fn question(r: &mut Rng, pool: &[Labels]) -> Q {
    Q {
        name: pick_name(r, pool),
        qtype: if r.chance(1, 4) { *r.pick(&QTYPE_SPECIALS) } else { *r.pick(&TYPED) },
        qclass: if r.chance(1, 4) { 255 } else { *r.pick(&CLASSES) },
        unicast: r.chance(1, 3),
    }
}

#[derive(Clone, Debug)]
pub struct PacketCfg {
    pub max_q: usize,
    pub max_rr: usize,
    pub pool: usize,
    pub style: LabelStyle,
    pub max_label: usize,
    pub sizes: Sizes,
    pub opt_chance_pct: u64,
}

impl Default for PacketCfg {
    fn default() -> Self {
        PacketCfg { max_q: 3, max_rr: 4, pool: 8, style: LabelStyle::Plain, max_label: 8, sizes: Sizes::default(), opt_chance_pct: 25 }
    }
}

pub fn packet(r: &mut Rng, cfg: &PacketCfg) -> (MsgSpec, Option<OptSpec>) {
    let pool = name_pool(r, cfg.pool.max(3), cfg.style, cfg.max_label);
    let mut m = MsgSpec { id: r.next_u64() as u16, ..Default::default() };
    // flags: QR, AA, TC, RD, RA, AD, CD (Z never set; opcode/rcode left 0)
    let mut flags = 0u16;
    for bit in [0x8000u16, 0x0400, 0x0200, 0x0100, 0x0080, 0x0020, 0x0010] {
        if r.chance(1, 3) {
            flags |= bit;
        }
    }
    // opcode and response code, set through the packet API (an extended RCODE, > 15, is carried
    // in full only when the packet has an OPT record; without one only its low bits are written)
    if r.chance(1, 5) {
        flags |= (*r.pick(&[1u16, 2, 4, 5, 15])) << 11;
    }
    if r.chance(1, 5) {
        flags |= 1 + r.below(10) as u16;
    } else if r.chance(1, 6) {
        m.ext_rcode = *r.pick(&[16u16, 17, 23, 0x0FFF]);
    }
    m.flags = flags;
    for _ in 0..r.usize_below(cfg.max_q + 1) {
        m.questions.push(question(r, &pool));
    }
    for sec in 0..3 {
        for _ in 0..r.usize_below(cfg.max_rr + 1) {
            let owner = pick_name(r, &pool);
            let ty = any_rtype(r);
            let rec = record(r, owner, ty, &pool, &cfg.sizes);
            match sec {
                0 => m.answers.push(rec),
                1 => m.authority.push(rec),
                _ => m.additional.push(rec),
            }
        }
    }
    let opt = if r.below(100) < cfg.opt_chance_pct {
        let n = r.usize_below(3);
        Some(OptSpec {
            udp_size: r.next_u64() as u16,
            version: r.next_u64() as u8,
            codes: (0..n).map(|_| (r.next_u64() as u16, blob(r, cfg.sizes.blob_max))).collect(),
        })
    } else {
        None
    };
    (m, opt)
}

/// A message built so that a multi-label name straddles offset 16383 (the largest offset a
/// compression pointer can express) and its suffixes are reused afterwards: one opaque filler
/// record pads the message so that the next owner name starts `d` bytes before 16384.
pub fn boundary_packet(r: &mut Rng) -> (MsgSpec, Option<OptSpec>) {
    let style = if r.chance(1, 4) { LabelStyle::Binary } else { LabelStyle::Plain };
    let nl = 2 + r.usize_below(3);
    let base: Labels = (0..nl).map(|_| label(r, style, 8)).collect();
    let wire = refdns::name_wire_len(&base);
    let d = r.usize_below(wire + 3);
    let mut m = MsgSpec { id: r.next_u64() as u16, flags: if r.chance(1, 2) { 0x8400 } else { 0 }, ..Default::default() };
    let nq = r.usize_below(2);
    let mut pool: Vec<Labels> = vec![base.clone()];
    for i in 1..base.len() {
        pool.push(base[i..].to_vec());
    }
    let mut extra = base.clone();
    extra.insert(0, label(r, style, 5));
    pool.push(extra);
    for _ in 0..nq {
        // an unrelated question name so that nothing of `base` is registered early
        m.questions.push(Q { name: vec![label(r, style, 6)], qtype: t::A, qclass: 1, unicast: false });
    }
    let used: usize = 12 + m.questions.iter().map(|q| refdns::name_wire_len(&q.name) + 4).sum::<usize>();
    // filler: root owner (1) + 10 + blob
    let target_start = 16384usize.saturating_sub(d);
    let blob = target_start.saturating_sub(used + 11);
    m.answers.push(Rec { owner: vec![], rtype: t::NULL, class: 1, cache_flush: false, ttl: 0, fields: vec![F::Bytes(r.bytes(blob.max(1)))] });
    let sz = Sizes { blob_max: 8, txt_strings_max: 2, txt_string_max: 8 };
    let n = 3 + r.usize_below(6);
    for i in 0..n {
        let owner = if i == 0 { base.clone() } else { pool[r.usize_below(pool.len())].clone() };
        let ty = *r.pick(&[t::A, t::PTR, t::NS, t::MX, t::CNAME, t::SRV, t::SOA, t::TXT, t::KX, t::RP, t::NSEC, t::MINFO]);
        let mut rec = record(r, owner, ty, &pool, &sz);
        if rec.fields.is_empty() {
            rec.fields = rdata_fields(r, ty, &pool, &sz);
        }
        match r.below(3) {
            0 => m.answers.push(rec),
            1 => m.authority.push(rec),
            _ => m.additional.push(rec),
        }
    }
    (m, None)
}
