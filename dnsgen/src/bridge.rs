//! refdns::Rec -> simple_dns::ResourceRecord<'static> through simple-dns's public API.

use refdns::{t, Labels, MsgSpec, Rec, F, Q};
use simple_dns::rdata::*;
use simple_dns::{CharacterString, Name, Packet, Question, ResourceRecord, CLASS, QCLASS, QTYPE, TYPE};
use std::convert::TryFrom;

pub fn name(n: &Labels) -> Name<'static> {
    let labels: Vec<simple_dns::Label<'static>> =
        n.iter().map(|l| simple_dns::Label::new_unchecked(l.clone())).collect();
    Name::new_with_labels(&labels)
}

pub fn class(c: u16) -> CLASS {
    CLASS::try_from(c).expect("generator produced an invalid class")
}

fn cs(b: &[u8]) -> CharacterString<'static> {
    CharacterString::new(b).expect("char-string too long").into_owned()
}

struct Fi<'a> {
    f: &'a [F],
    i: usize,
}
impl<'a> Fi<'a> {
    fn u8(&mut self) -> u8 {
        self.i += 1;
        match &self.f[self.i - 1] { F::U8(v) => *v, o => panic!("bridge: expected U8 got {:?}", o) }
    }
    fn u16(&mut self) -> u16 {
        self.i += 1;
        match &self.f[self.i - 1] { F::U16(v) => *v, o => panic!("bridge: expected U16 got {:?}", o) }
    }
    fn u32(&mut self) -> u32 {
        self.i += 1;
        match &self.f[self.i - 1] { F::U32(v) => *v, o => panic!("bridge: expected U32 got {:?}", o) }
    }
    fn u128(&mut self) -> u128 {
        self.i += 1;
        match &self.f[self.i - 1] { F::U128(v) => *v, o => panic!("bridge: expected U128 got {:?}", o) }
    }
    fn name(&mut self) -> Name<'static> {
        self.i += 1;
        match &self.f[self.i - 1] { F::Name(n, _) => name(n), o => panic!("bridge: expected Name got {:?}", o) }
    }
    fn str(&mut self) -> CharacterString<'static> {
        self.i += 1;
        match &self.f[self.i - 1] { F::Str(s) => cs(s), o => panic!("bridge: expected Str got {:?}", o) }
    }
    fn bytes(&mut self) -> Vec<u8> {
        self.i += 1;
        match &self.f[self.i - 1] { F::Bytes(b) => b.clone(), o => panic!("bridge: expected Bytes got {:?}", o) }
    }
    fn done(&self) -> bool {
        self.i >= self.f.len()
    }
}

pub fn rdata(r: &Rec) -> RData<'static> {
    let mut f = Fi { f: &r.fields, i: 0 };
    if r.fields.is_empty() {
        return RData::Empty(TYPE::from(r.rtype));
    }
    match r.rtype {
        t::A => RData::A(A { address: f.u32() }),
        t::AAAA => RData::AAAA(AAAA { address: f.u128() }),
        t::NS => RData::NS(NS(f.name())),
        t::MD => RData::MD(MD(f.name())),
        t::MF => RData::MF(MF(f.name())),
        t::CNAME => RData::CNAME(CNAME(f.name())),
        t::MB => RData::MB(MB(f.name())),
        t::MG => RData::MG(MG(f.name())),
        t::MR => RData::MR(MR(f.name())),
        t::PTR => RData::PTR(PTR(f.name())),
        t::NSAP_PTR => RData::NSAP_PTR(NSAP_PTR(f.name())),
        t::HINFO => RData::HINFO(HINFO { cpu: f.str(), os: f.str() }),
        t::MINFO => RData::MINFO(MINFO { rmailbox: f.name(), emailbox: f.name() }),
        t::MX => RData::MX(MX { preference: f.u16(), exchange: f.name() }),
        t::TXT => {
            let mut txt = TXT::new();
            // a single empty string is how an empty TXT is written; keep `strings` empty then
            if !(r.fields.len() == 1 && r.fields[0] == F::Str(vec![])) {
                while !f.done() {
                    txt.add_char_string(f.str());
                }
            }
            RData::TXT(txt)
        }
        t::SOA => RData::SOA(SOA {
            mname: f.name(),
            rname: f.name(),
            serial: f.u32(),
            refresh: f.u32() as i32,
            retry: f.u32() as i32,
            expire: f.u32() as i32,
            minimum: f.u32(),
        }),
        t::WKS => RData::WKS(WKS { address: f.u32(), protocol: f.u8(), bit_map: f.bytes().into() }),
        t::SRV => RData::SRV(SRV { priority: f.u16(), weight: f.u16(), port: f.u16(), target: f.name() }),
        t::RP => RData::RP(RP { mbox: f.name(), txt: f.name() }),
        t::AFSDB => RData::AFSDB(AFSDB { subtype: f.u16(), hostname: f.name() }),
        t::ISDN => RData::ISDN(ISDN { address: f.str(), sa: f.str() }),
        t::RT => RData::RouteThrough(RouteThrough { preference: f.u16(), intermediate_host: f.name() }),
        t::NAPTR => RData::NAPTR(NAPTR {
            order: f.u16(),
            preference: f.u16(),
            flags: f.str(),
            services: f.str(),
            regexp: f.str(),
            replacement: f.name(),
        }),
        t::NSAP => {
            let b = f.bytes();
            assert_eq!(b.len(), 20);
            let mut aa = [0u8; 4];
            aa[1..4].copy_from_slice(&b[4..7]);
            let mut id = [0u8; 8];
            id[2..8].copy_from_slice(&b[13..19]);
            RData::NSAP(NSAP {
                afi: b[0],
                idi: u16::from_be_bytes([b[1], b[2]]),
                dfi: b[3],
                aa: u32::from_be_bytes(aa),
                rsvd: u16::from_be_bytes([b[7], b[8]]),
                rd: u16::from_be_bytes([b[9], b[10]]),
                area: u16::from_be_bytes([b[11], b[12]]),
                id: u64::from_be_bytes(id),
                sel: b[19],
            })
        }
        t::LOC => RData::LOC(LOC {
            version: f.u8(),
            size: f.u8(),
            horizontal_precision: f.u8(),
            vertical_precision: f.u8(),
            latitude: f.u32() as i32,
            longitude: f.u32() as i32,
            altitude: f.u32() as i32,
        }),
        t::CAA => RData::CAA(CAA { flag: f.u8(), tag: f.str(), value: f.bytes().into() }),
        t::SVCB | t::HTTPS => {
            let prio = f.u16();
            let target = f.name();
            let mut s = SVCB::new(prio, target);
            while !f.done() {
                let k = f.u16();
                let _l = f.u16();
                let v = f.bytes();
                s.set_param(k, v).unwrap();
            }
            if r.rtype == t::SVCB { RData::SVCB(s) } else { RData::HTTPS(HTTPS(s)) }
        }
        t::EUI48 => {
            let b = f.bytes();
            let mut a = [0u8; 6];
            a.copy_from_slice(&b);
            RData::EUI48(EUI48 { address: a })
        }
        t::EUI64 => {
            let b = f.bytes();
            let mut a = [0u8; 8];
            a.copy_from_slice(&b);
            RData::EUI64(EUI64 { address: a })
        }
        t::CERT => RData::CERT(CERT { type_code: f.u16(), key_tag: f.u16(), algorithm: f.u8(), certificate: f.bytes().into() }),
        t::ZONEMD => RData::ZONEMD(ZONEMD { serial: f.u32(), scheme: f.u8(), algorithm: f.u8(), digest: f.bytes().into() }),
        t::KX => RData::KX(KX { preference: f.u16(), exchanger: f.name() }),
        t::IPSECKEY => {
            let precedence = f.u8();
            let gw = f.u8();
            let algorithm = f.u8();
            let gateway = match gw {
                0 => Gateway::None,
                1 => Gateway::IPv4(std::net::Ipv4Addr::from(f.u32())),
                2 => Gateway::IPv6(std::net::Ipv6Addr::from(f.u128())),
                _ => Gateway::Domain(f.name()),
            };
            RData::IPSECKEY(IPSECKEY { precedence, algorithm, gateway, public_key: f.bytes().into() })
        }
        t::DNSKEY => RData::DNSKEY(DNSKEY { flags: f.u16(), protocol: f.u8(), algorithm: f.u8(), public_key: f.bytes().into() }),
        t::RRSIG => RData::RRSIG(RRSIG {
            type_covered: f.u16(),
            algorithm: f.u8(),
            labels: f.u8(),
            original_ttl: f.u32(),
            signature_expiration: f.u32(),
            signature_inception: f.u32(),
            key_tag: f.u16(),
            signer_name: f.name(),
            signature: f.bytes().into(),
        }),
        t::DS => RData::DS(DS { key_tag: f.u16(), algorithm: f.u8(), digest_type: f.u8(), digest: f.bytes().into() }),
        t::NSEC => {
            let next_name = f.name();
            let mut maps = Vec::new();
            while !f.done() {
                let w = f.u8();
                let _l = f.u8();
                maps.push(TypeBitMap { window_block: w, bitmap: f.bytes().into() });
            }
            RData::NSEC(NSEC { next_name, type_bit_maps: maps })
        }
        t::DHCID => RData::DHCID(DHCID { identifier: f.u16(), digest_type: f.u8(), digest: f.bytes().into() }),
        other => {
            let b = f.bytes();
            RData::NULL(other, NULL::new(&b).unwrap().into_owned())
        }
    }
}

pub fn record(r: &Rec) -> ResourceRecord<'static> {
    ResourceRecord::new(name(&r.owner), class(r.class), r.ttl, rdata(r)).with_cache_flush(r.cache_flush)
}

pub fn question(q: &Q) -> Question<'static> {
    Question::new(
        name(&q.name),
        QTYPE::try_from(q.qtype).expect("generator produced an invalid qtype"),
        QCLASS::try_from(q.qclass).expect("generator produced an invalid qclass"),
        q.unicast,
    )
}

/// EDNS description carried next to a MsgSpec (the OPT pseudo-record is not a `Rec`).
#[derive(Clone, Debug, PartialEq, Eq, serde::Serialize, serde::Deserialize)]
pub struct OptSpec {
    pub udp_size: u16,
    pub version: u8,
    pub codes: Vec<(u16, Vec<u8>)>,
}

pub fn packet(m: &MsgSpec, opt: Option<&OptSpec>) -> Packet<'static> {
    let mut p = if m.flags & 0x8000 != 0 { Packet::new_reply(m.id) } else { Packet::new_query(m.id) };
    use simple_dns::PacketFlag;
    p.set_flags(PacketFlag::from_bits_truncate(m.flags & !0x8000 & !0x0040));
    for q in &m.questions {
        p.questions.push(question(q));
    }
    for r in &m.answers {
        p.answers.push(record(r));
    }
    for r in &m.authority {
        p.name_servers.push(record(r));
    }
    for r in &m.additional {
        p.additional_records.push(record(r));
    }
    if let Some(o) = opt {
        *p.opt_mut() = Some(OPT {
            opt_codes: o.codes.iter().map(|(c, d)| OPTCode { code: *c, data: d.clone().into() }).collect(),
            udp_packet_size: o.udp_size,
            version: o.version,
        });
    }
    p
}
