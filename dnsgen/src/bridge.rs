//! refdns::Rec -> simple_dns::ResourceRecord<'static> through simple-dns's public API.

use refdns::{t, Labels, MsgSpec, Rec, F, Q};
use simple_dns::rdata::*;
use simple_dns::{CharacterString, Name, Packet, Question, ResourceRecord, CLASS, QCLASS, QTYPE, TYPE};
use std::convert::TryFrom;

thread_local! {
    /// Construction style of the current case: the same abstract value can be built through
    /// several public constructors (Name::new_with_labels / new_unchecked(&str), TXT builder /
    /// TryFrom<&str>, SVCB::set_param / typed setters, ...). 0 = always the basic one.
    pub static STYLE: std::cell::Cell<u64> = const { std::cell::Cell::new(0) };
}

/// Pick an alternative constructor? Deterministic in (style, discriminator).
fn alt(disc: u64, one_in: u64) -> bool {
    let st = STYLE.with(|s| s.get());
    st != 0 && simrt::rng::mix(st, disc) % one_in == 0
}

fn hash_labels(n: &Labels) -> u64 {
    let mut h = 0xcbf2_9ce4_8422_2325u64;
    for l in n {
        for b in l {
            h ^= *b as u64;
            h = h.wrapping_mul(0x0000_0100_0000_01B3);
        }
        h ^= 0xff;
        h = h.wrapping_mul(0x0000_0100_0000_01B3);
    }
    h
}

pub fn name(n: &Labels) -> Name<'static> {
    // alternative: through the textual constructor, when the labels survive the '.' split
    if !n.is_empty() && alt(hash_labels(n), 3) && n.iter().all(|l| !l.is_empty() && !l.contains(&b'.') && std::str::from_utf8(l).is_ok()) {
        let text = n.iter().map(|l| std::str::from_utf8(l).unwrap()).collect::<Vec<_>>().join(".");
        return Name::new_unchecked(&text).into_owned();
    }
    let labels: Vec<simple_dns::Label<'static>> =
        n.iter().map(|l| simple_dns::Label::new_unchecked(l.clone())).collect();
    Name::new_with_labels(&labels)
}

pub fn class(c: u16) -> CLASS {
    CLASS::try_from(c).expect("generator produced an invalid class")
}

fn cs(b: &[u8]) -> CharacterString<'static> {
    if let Ok(text) = std::str::from_utf8(b) {
        if alt(b.len() as u64 ^ 0xC5, 3) {
            return CharacterString::try_from(text.to_string()).expect("char-string too long");
        }
    }
    CharacterString::new(b).expect("char-string too long").into_owned()
}

struct Fi<'a> {
    f: &'a [F],
    i: usize,
}
impl<'a> Fi<'a> {
    fn u8(&mut self) -> u8 {
        self.i += 1;
        match &self.f[self.i - 1] { F::U8(v) => *v, o => panic!("bridge: expected U8 got {:?}", o) }
    }
    fn u16(&mut self) -> u16 {
        self.i += 1;
        match &self.f[self.i - 1] { F::U16(v) => *v, o => panic!("bridge: expected U16 got {:?}", o) }
    }
    fn u32(&mut self) -> u32 {
        self.i += 1;
        match &self.f[self.i - 1] { F::U32(v) => *v, o => panic!("bridge: expected U32 got {:?}", o) }
    }
    fn u128(&mut self) -> u128 {
        self.i += 1;
        match &self.f[self.i - 1] { F::U128(v) => *v, o => panic!("bridge: expected U128 got {:?}", o) }
    }
    fn name(&mut self) -> Name<'static> {
        self.i += 1;
        match &self.f[self.i - 1] { F::Name(n, _) => name(n), o => panic!("bridge: expected Name got {:?}", o) }
    }
    fn str(&mut self) -> CharacterString<'static> {
        self.i += 1;
        match &self.f[self.i - 1] { F::Str(s) => cs(s), o => panic!("bridge: expected Str got {:?}", o) }
    }
    fn bytes(&mut self) -> Vec<u8> {
        self.i += 1;
        match &self.f[self.i - 1] { F::Bytes(b) => b.clone(), o => panic!("bridge: expected Bytes got {:?}", o) }
    }
    fn done(&self) -> bool {
        self.i >= self.f.len()
    }
}

pub fn rdata(r: &Rec) -> RData<'static> {
    let mut f = Fi { f: &r.fields, i: 0 };
    if r.fields.is_empty() {
        return RData::Empty(TYPE::from(r.rtype));
    }
    match r.rtype {
        t::A => RData::A(A { address: f.u32() }),
        t::AAAA => RData::AAAA(AAAA { address: f.u128() }),
        t::NS => RData::NS(NS(f.name())),
        t::MD => RData::MD(MD(f.name())),
        t::MF => RData::MF(MF(f.name())),
        t::CNAME => RData::CNAME(CNAME(f.name())),
        t::MB => RData::MB(MB(f.name())),
        t::MG => RData::MG(MG(f.name())),
        t::MR => RData::MR(MR(f.name())),
        t::PTR => RData::PTR(PTR(f.name())),
        t::NSAP_PTR => RData::NSAP_PTR(NSAP_PTR(f.name())),
        t::HINFO => RData::HINFO(HINFO { cpu: f.str(), os: f.str() }),
        t::MINFO => RData::MINFO(MINFO { rmailbox: f.name(), emailbox: f.name() }),
        t::MX => RData::MX(MX { preference: f.u16(), exchange: f.name() }),
        t::TXT if txt_from_str_text(&r.fields).is_some() && alt(r.fields.len() as u64 ^ 0x7E7, 2) => {
            // the same strings through TryFrom<&str> (chunks of 254 bytes)
            let text = txt_from_str_text(&r.fields).unwrap();
            RData::TXT(TXT::try_from(text.as_str()).expect("txt from str").into_owned())
        }
        t::TXT => {
            let mut txt = TXT::new();
            // a single empty string is how an empty TXT is written; keep `strings` empty then
            if !(r.fields.len() == 1 && r.fields[0] == F::Str(vec![])) {
                while !f.done() {
                    txt.add_char_string(f.str());
                }
            }
            RData::TXT(txt)
        }
        t::SOA => RData::SOA(SOA {
            mname: f.name(),
            rname: f.name(),
            serial: f.u32(),
            refresh: f.u32() as i32,
            retry: f.u32() as i32,
            expire: f.u32() as i32,
            minimum: f.u32(),
        }),
        t::WKS => RData::WKS(WKS { address: f.u32(), protocol: f.u8(), bit_map: f.bytes().into() }),
        t::SRV => RData::SRV(SRV { priority: f.u16(), weight: f.u16(), port: f.u16(), target: f.name() }),
        t::RP => RData::RP(RP { mbox: f.name(), txt: f.name() }),
        t::AFSDB => RData::AFSDB(AFSDB { subtype: f.u16(), hostname: f.name() }),
        t::ISDN => RData::ISDN(ISDN { address: f.str(), sa: f.str() }),
        t::RT => RData::RouteThrough(RouteThrough { preference: f.u16(), intermediate_host: f.name() }),
        t::NAPTR => RData::NAPTR(NAPTR {
            order: f.u16(),
            preference: f.u16(),
            flags: f.str(),
            services: f.str(),
            regexp: f.str(),
            replacement: f.name(),
        }),
        t::NSAP => {
            let b = f.bytes();
            assert_eq!(b.len(), 20);
            let mut aa = [0u8; 4];
            aa[1..4].copy_from_slice(&b[4..7]);
            let mut id = [0u8; 8];
            id[2..8].copy_from_slice(&b[13..19]);
            RData::NSAP(NSAP {
                afi: b[0],
                idi: u16::from_be_bytes([b[1], b[2]]),
                dfi: b[3],
                aa: u32::from_be_bytes(aa),
                rsvd: u16::from_be_bytes([b[7], b[8]]),
                rd: u16::from_be_bytes([b[9], b[10]]),
                area: u16::from_be_bytes([b[11], b[12]]),
                id: u64::from_be_bytes(id),
                sel: b[19],
            })
        }
        t::LOC => RData::LOC(LOC {
            version: f.u8(),
            size: f.u8(),
            horizontal_precision: f.u8(),
            vertical_precision: f.u8(),
            latitude: f.u32() as i32,
            longitude: f.u32() as i32,
            altitude: f.u32() as i32,
        }),
        t::CAA => RData::CAA(CAA { flag: f.u8(), tag: f.str(), value: f.bytes().into() }),
        t::SVCB | t::HTTPS => {
            let prio = f.u16();
            let target = f.name();
            let mut s = SVCB::new(prio, target);
            while !f.done() {
                let k = f.u16();
                let _l = f.u16();
                let v = f.bytes();
                // typed setters where the value has the right shape
                let typed = alt(k as u64 ^ 0x5C8, 2);
                match (k, typed) {
                    (0, true) if v.len() % 2 == 0 => s.set_mandatory(v.chunks(2).map(|c| u16::from_be_bytes([c[0], c[1]]))).unwrap(),
                    (2, true) if v.is_empty() => s.set_no_default_alpn(),
                    (3, true) if v.len() == 2 => s.set_port(u16::from_be_bytes([v[0], v[1]])),
                    (4, true) if v.len() % 4 == 0 => s.set_ipv4hint(v.chunks(4).map(|c| u32::from_be_bytes([c[0], c[1], c[2], c[3]]))).unwrap(),
                    (6, true) if v.len() % 16 == 0 => s
                        .set_ipv6hint(v.chunks(16).map(|c| {
                            let mut a = [0u8; 16];
                            a.copy_from_slice(c);
                            u128::from_be_bytes(a)
                        }))
                        .unwrap(),
                    _ => s.set_param(k, v).unwrap(),
                }
            }
            if r.rtype == t::SVCB { RData::SVCB(s) } else { RData::HTTPS(HTTPS(s)) }
        }
        t::EUI48 => {
            let b = f.bytes();
            let mut a = [0u8; 6];
            a.copy_from_slice(&b);
            RData::EUI48(EUI48 { address: a })
        }
        t::EUI64 => {
            let b = f.bytes();
            let mut a = [0u8; 8];
            a.copy_from_slice(&b);
            RData::EUI64(EUI64 { address: a })
        }
        t::CERT => RData::CERT(CERT { type_code: f.u16(), key_tag: f.u16(), algorithm: f.u8(), certificate: f.bytes().into() }),
        t::ZONEMD => RData::ZONEMD(ZONEMD { serial: f.u32(), scheme: f.u8(), algorithm: f.u8(), digest: f.bytes().into() }),
        t::KX => RData::KX(KX { preference: f.u16(), exchanger: f.name() }),
        t::IPSECKEY => {
            let precedence = f.u8();
            let gw = f.u8();
            let algorithm = f.u8();
            let gateway = match gw {
                0 => Gateway::None,
                1 => Gateway::IPv4(std::net::Ipv4Addr::from(f.u32())),
                2 => Gateway::IPv6(std::net::Ipv6Addr::from(f.u128())),
                _ => Gateway::Domain(f.name()),
            };
            RData::IPSECKEY(IPSECKEY { precedence, algorithm, gateway, public_key: f.bytes().into() })
        }
        t::DNSKEY => RData::DNSKEY(DNSKEY { flags: f.u16(), protocol: f.u8(), algorithm: f.u8(), public_key: f.bytes().into() }),
        t::RRSIG => RData::RRSIG(RRSIG {
            type_covered: f.u16(),
            algorithm: f.u8(),
            labels: f.u8(),
            original_ttl: f.u32(),
            signature_expiration: f.u32(),
            signature_inception: f.u32(),
            key_tag: f.u16(),
            signer_name: f.name(),
            signature: f.bytes().into(),
        }),
        t::DS => RData::DS(DS { key_tag: f.u16(), algorithm: f.u8(), digest_type: f.u8(), digest: f.bytes().into() }),
        t::NSEC => {
            let next_name = f.name();
            let mut maps = Vec::new();
            while !f.done() {
                let w = f.u8();
                let _l = f.u8();
                maps.push(TypeBitMap { window_block: w, bitmap: f.bytes().into() });
            }
            RData::NSEC(NSEC { next_name, type_bit_maps: maps })
        }
        t::DHCID => RData::DHCID(DHCID { identifier: f.u16(), digest_type: f.u8(), digest: f.bytes().into() }),
        other => {
            let b = f.bytes();
            RData::NULL(other, NULL::new(&b).unwrap().into_owned())
        }
    }
}

/// If the strings of a TXT record are exactly what `TXT::try_from(&str)` would produce for some
/// text (254-byte chunks, valid UTF-8 per chunk boundary), return that text.
fn txt_from_str_text(fields: &[F]) -> Option<String> {
    let mut strs: Vec<&Vec<u8>> = Vec::new();
    for f in fields {
        match f {
            F::Str(s) => strs.push(s),
            _ => return None,
        }
    }
    if strs.len() == 1 && strs[0].is_empty() {
        return Some(String::new());
    }
    let mut all = Vec::new();
    for (i, s) in strs.iter().enumerate() {
        let last = i + 1 == strs.len();
        if s.is_empty() || s.len() > 254 || (!last && s.len() != 254) {
            return None;
        }
        all.extend_from_slice(s);
    }
    String::from_utf8(all).ok()
}

pub fn record(r: &Rec) -> ResourceRecord<'static> {
    ResourceRecord::new(name(&r.owner), class(r.class), r.ttl, rdata(r)).with_cache_flush(r.cache_flush)
}

pub fn question(q: &Q) -> Question<'static> {
    Question::new(
        name(&q.name),
        QTYPE::try_from(q.qtype).expect("generator produced an invalid qtype"),
        QCLASS::try_from(q.qclass).expect("generator produced an invalid qclass"),
        q.unicast,
    )
}

/// EDNS description carried next to a MsgSpec (the OPT pseudo-record is not a `Rec`).
#[derive(Clone, Debug, PartialEq, Eq, serde::Serialize, serde::Deserialize)]
pub struct OptSpec {
    pub udp_size: u16,
    pub version: u8,
    pub codes: Vec<(u16, Vec<u8>)>,
}

pub fn packet(m: &MsgSpec, opt: Option<&OptSpec>) -> Packet<'static> {
    let mut p = if m.flags & 0x8000 != 0 { Packet::new_reply(m.id) } else { Packet::new_query(m.id) };
    use simple_dns::PacketFlag;
    p.set_flags(PacketFlag::from_bits_truncate(m.flags & !0x8000 & !0x0040));
    let opcode = (m.flags >> 11) & 0xF;
    if opcode != 0 {
        *p.opcode_mut() = simple_dns::OPCODE::from(opcode);
    }
    let rcode = if m.ext_rcode != 0 { m.ext_rcode } else { m.flags & 0xF };
    if rcode != 0 {
        *p.rcode_mut() = simple_dns::RCODE::from(rcode);
    }
    for q in &m.questions {
        p.questions.push(question(q));
    }
    for r in &m.answers {
        p.answers.push(record(r));
    }
    for r in &m.authority {
        p.name_servers.push(record(r));
    }
    for r in &m.additional {
        p.additional_records.push(record(r));
    }
    if let Some(o) = opt {
        *p.opt_mut() = Some(OPT {
            opt_codes: o.codes.iter().map(|(c, d)| OPTCode { code: *c, data: d.clone().into() }).collect(),
            udp_packet_size: o.udp_size,
            version: o.version,
        });
    }
    p
}
