//! Workload generation (abstract records from `refdns`) and the bridge from abstract records
//! to `simple_dns` values built through the public constructors. The generator is workload
//! for the fault/schedule space, not the thing being decided.

pub mod bridge;
pub mod gen;
