//! refdns — an independent, minimal RFC 1035 reader/writer used only as an oracle and by the
//! simulated raw peers. It shares no code with simple-dns.
//!
//! * `decode` walks a message: header, names (with compression pointers), RR envelopes, and —
//!   through a per-type schema of where domain names sit inside RDATA — produces a canonical
//!   (uncompressed) RDATA for comparison, plus a list of every name occurrence with its
//!   position, in-place labels and pointer, for the pointer-validity oracle.
//! * `encode` writes abstract records (`Rec`) without or with name compression.

use serde::{Deserialize, Serialize};
use std::collections::HashMap;

pub mod t {
    pub const A: u16 = 1;
    pub const NS: u16 = 2;
    pub const MD: u16 = 3;
    pub const MF: u16 = 4;
    pub const CNAME: u16 = 5;
    pub const SOA: u16 = 6;
    pub const MB: u16 = 7;
    pub const MG: u16 = 8;
    pub const MR: u16 = 9;
    pub const NULL: u16 = 10;
    pub const WKS: u16 = 11;
    pub const PTR: u16 = 12;
    pub const HINFO: u16 = 13;
    pub const MINFO: u16 = 14;
    pub const MX: u16 = 15;
    pub const TXT: u16 = 16;
    pub const RP: u16 = 17;
    pub const AFSDB: u16 = 18;
    pub const X25: u16 = 19;
    pub const ISDN: u16 = 20;
    pub const RT: u16 = 21;
    pub const NSAP: u16 = 22;
    pub const NSAP_PTR: u16 = 23;
    pub const AAAA: u16 = 28;
    pub const LOC: u16 = 29;
    pub const SRV: u16 = 33;
    pub const NAPTR: u16 = 35;
    pub const KX: u16 = 36;
    pub const CERT: u16 = 37;
    pub const OPT: u16 = 41;
    pub const DS: u16 = 43;
    pub const IPSECKEY: u16 = 45;
    pub const RRSIG: u16 = 46;
    pub const NSEC: u16 = 47;
    pub const DNSKEY: u16 = 48;
    pub const DHCID: u16 = 49;
    pub const ZONEMD: u16 = 63;
    pub const SVCB: u16 = 64;
    pub const HTTPS: u16 = 65;
    pub const EUI48: u16 = 108;
    pub const EUI64: u16 = 109;
    pub const IXFR: u16 = 251;
    pub const AXFR: u16 = 252;
    pub const MAILB: u16 = 253;
    pub const MAILA: u16 = 254;
    pub const ANY: u16 = 255;
    pub const CAA: u16 = 257;
}

pub type Labels = Vec<Vec<u8>>;

pub fn name_from_str(s: &str) -> Labels {
    s.split('.').filter(|l| !l.is_empty()).map(|l| l.as_bytes().to_vec()).collect()
}

pub fn name_to_string(n: &Labels) -> String {
    if n.is_empty() {
        return ".".into();
    }
    let mut out = String::new();
    for (i, l) in n.iter().enumerate() {
        if i > 0 {
            out.push('.');
        }
        for &b in l {
            if b.is_ascii_graphic() && b != b'.' && b != b'\\' {
                out.push(b as char);
            } else {
                out.push_str(&format!("\\{:03}", b));
            }
        }
    }
    out
}

pub fn name_wire_len(n: &Labels) -> usize {
    n.iter().map(|l| l.len() + 1).sum::<usize>() + 1
}

/// `sub` is `dom` or a label-wise subdomain of it (byte-exact labels).
pub fn is_subdomain_or_equal(sub: &Labels, dom: &Labels) -> bool {
    sub.len() >= dom.len() && sub[sub.len() - dom.len()..] == dom[..]
}

pub fn is_strict_subdomain(sub: &Labels, dom: &Labels) -> bool {
    sub.len() > dom.len() && sub[sub.len() - dom.len()..] == dom[..]
}

/// May a domain name at this position be compressed?
#[derive(Clone, Copy, Debug, PartialEq, Eq, Hash, Serialize, Deserialize)]
pub enum Comp {
    /// question name, owner name, RFC 1035 RDATA name: a repeat must be a pointer
    Must,
    /// later types whose specs are silent/lenient: either way, but pointers must be valid
    May,
    /// the type's specification forbids compression
    Never,
}

#[derive(Clone, Copy, Debug, PartialEq, Eq)]
pub enum Item {
    Skip(usize),
    Name(Comp),
    Str,
    Rest,
    /// IPSECKEY: precedence, gateway type, algorithm, then gateway by type
    IpsecGw,
}

/// Where domain names sit inside the RDATA of each type.
pub fn schema(rtype: u16) -> &'static [Item] {
    use Comp::*;
    use Item::*;
    match rtype {
        t::NS | t::MD | t::MF | t::CNAME | t::MB | t::MG | t::MR | t::PTR => &[Name(Must)],
        t::NSAP_PTR => &[Name(May)],
        t::SOA => &[Name(Must), Name(Must), Skip(20)],
        t::MINFO => &[Name(Must), Name(Must)],
        t::MX => &[Skip(2), Name(Must)],
        t::RP => &[Name(May), Name(May)],
        t::AFSDB => &[Skip(2), Name(May)],
        t::RT => &[Skip(2), Name(May)],
        t::SRV => &[Skip(6), Name(Never)],
        t::NAPTR => &[Skip(4), Str, Str, Str, Name(Never)],
        t::KX => &[Skip(2), Name(Never)],
        t::RRSIG => &[Skip(18), Name(Never), Rest],
        t::NSEC => &[Name(Never), Rest],
        t::SVCB | t::HTTPS => &[Skip(2), Name(Never), Rest],
        t::IPSECKEY => &[IpsecGw, Rest],
        _ => &[Rest],
    }
}

// ------------------------------------------------------------------ abstract records

#[derive(Clone, Debug, PartialEq, Eq, Hash, Serialize, Deserialize)]
pub enum F {
    U8(u8),
    U16(u16),
    U32(u32),
    U64(u64),
    U128(u128),
    Name(Labels, Comp),
    Str(Vec<u8>),
    Bytes(Vec<u8>),
}

#[derive(Clone, Debug, PartialEq, Eq, Hash, Serialize, Deserialize)]
pub struct Rec {
    pub owner: Labels,
    pub rtype: u16,
    pub class: u16,
    pub cache_flush: bool,
    pub ttl: u32,
    pub fields: Vec<F>,
}

impl Rec {
    pub fn rdata_canon(&self) -> Vec<u8> {
        let mut out = Vec::new();
        for f in &self.fields {
            enc_field_plain(&mut out, f);
        }
        out
    }
    /// identity used by stores: (owner, class, type, canonical rdata)
    pub fn key(&self) -> RecKey {
        RecKey {
            owner: self.owner.clone(),
            class: self.class,
            rtype: self.rtype,
            rdata: self.rdata_canon(),
        }
    }
    /// names inside the RDATA, in order
    pub fn rdata_names(&self) -> Vec<(&Labels, Comp)> {
        self.fields
            .iter()
            .filter_map(|f| match f {
                F::Name(n, c) => Some((n, *c)),
                _ => None,
            })
            .collect()
    }
}

/// Record identity is insensitive to the order of the strings of a TXT record: a peer that
/// builds its TXT record from a hash map emits them in an order nobody can predict.
pub fn norm_rdata(rtype: u16, rdata: Vec<u8>) -> Vec<u8> {
    if rtype != t::TXT {
        return rdata;
    }
    let mut strs: Vec<&[u8]> = Vec::new();
    let mut pos = 0;
    while pos < rdata.len() {
        let l = rdata[pos] as usize;
        if pos + 1 + l > rdata.len() {
            return rdata;
        }
        strs.push(&rdata[pos..pos + 1 + l]);
        pos += 1 + l;
    }
    strs.sort();
    strs.concat()
}

#[derive(Clone, Debug, PartialEq, Eq, Hash, PartialOrd, Ord, Serialize, Deserialize)]
pub struct RecKey {
    pub owner: Labels,
    pub class: u16,
    pub rtype: u16,
    pub rdata: Vec<u8>,
}

impl RecKey {
    /// identity modulo the order of TXT strings (see `norm_rdata`)
    pub fn norm(&self) -> RecKey {
        RecKey { owner: self.owner.clone(), class: self.class, rtype: self.rtype, rdata: norm_rdata(self.rtype, self.rdata.clone()) }
    }
}

#[derive(Clone, Debug, PartialEq, Eq, Hash, Serialize, Deserialize)]
pub struct Q {
    pub name: Labels,
    pub qtype: u16,
    pub qclass: u16,
    pub unicast: bool,
}

#[derive(Clone, Debug, Default, PartialEq, Eq, Serialize, Deserialize)]
pub struct MsgSpec {
    pub id: u16,
    /// the 16-bit flags word (QR, opcode, AA, TC, RD, RA, Z, AD, CD, low RCODE bits)
    pub flags: u16,
    /// full (up to 12-bit) response code to set through the packet API when non-zero; values
    /// above 15 need an OPT record to be carried in full (used by wire-sim only; the reference
    /// encoder ignores it)
    #[serde(default)]
    pub ext_rcode: u16,
    pub questions: Vec<Q>,
    pub answers: Vec<Rec>,
    pub authority: Vec<Rec>,
    pub additional: Vec<Rec>,
}

fn enc_name_plain(out: &mut Vec<u8>, n: &Labels) {
    for l in n {
        out.push(l.len() as u8);
        out.extend_from_slice(l);
    }
    out.push(0);
}

fn enc_field_plain(out: &mut Vec<u8>, f: &F) {
    match f {
        F::U8(v) => out.push(*v),
        F::U16(v) => out.extend_from_slice(&v.to_be_bytes()),
        F::U32(v) => out.extend_from_slice(&v.to_be_bytes()),
        F::U64(v) => out.extend_from_slice(&v.to_be_bytes()),
        F::U128(v) => out.extend_from_slice(&v.to_be_bytes()),
        F::Name(n, _) => enc_name_plain(out, n),
        F::Str(s) => {
            out.push(s.len() as u8);
            out.extend_from_slice(s);
        }
        F::Bytes(b) => out.extend_from_slice(b),
    }
}

struct Enc {
    out: Vec<u8>,
    table: HashMap<Vec<Vec<u8>>, usize>,
    compress: bool,
}

impl Enc {
    fn name(&mut self, n: &Labels, comp: Comp) {
        if !self.compress || comp == Comp::Never {
            enc_name_plain(&mut self.out, n);
            return;
        }
        for i in 0..n.len() {
            let suffix: Vec<Vec<u8>> = n[i..].to_vec();
            if let Some(&p) = self.table.get(&suffix) {
                self.out.extend_from_slice(&((p as u16) | 0xC000).to_be_bytes());
                return;
            }
            if self.out.len() <= 0x3FFF {
                self.table.insert(suffix, self.out.len());
            }
            self.out.push(n[i].len() as u8);
            self.out.extend_from_slice(&n[i]);
        }
        self.out.push(0);
    }
    fn rec(&mut self, r: &Rec) {
        self.name(&r.owner, Comp::Must);
        self.out.extend_from_slice(&r.rtype.to_be_bytes());
        let class = r.class | if r.cache_flush { 0x8000 } else { 0 };
        self.out.extend_from_slice(&class.to_be_bytes());
        self.out.extend_from_slice(&r.ttl.to_be_bytes());
        let lenpos = self.out.len();
        self.out.extend_from_slice(&[0, 0]);
        for f in &r.fields {
            match f {
                F::Name(n, c) => self.name(n, *c),
                other => enc_field_plain(&mut self.out, other),
            }
        }
        let l = (self.out.len() - lenpos - 2) as u16;
        self.out[lenpos..lenpos + 2].copy_from_slice(&l.to_be_bytes());
    }
}

pub fn encode(m: &MsgSpec, compress: bool) -> Vec<u8> {
    let mut e = Enc { out: Vec::new(), table: HashMap::new(), compress };
    e.out.extend_from_slice(&m.id.to_be_bytes());
    e.out.extend_from_slice(&m.flags.to_be_bytes());
    e.out.extend_from_slice(&(m.questions.len() as u16).to_be_bytes());
    e.out.extend_from_slice(&(m.answers.len() as u16).to_be_bytes());
    e.out.extend_from_slice(&(m.authority.len() as u16).to_be_bytes());
    e.out.extend_from_slice(&(m.additional.len() as u16).to_be_bytes());
    for q in &m.questions {
        e.name(&q.name, Comp::Must);
        e.out.extend_from_slice(&q.qtype.to_be_bytes());
        let c = q.qclass | if q.unicast { 0x8000 } else { 0 };
        e.out.extend_from_slice(&c.to_be_bytes());
    }
    for r in &m.answers {
        e.rec(r);
    }
    for r in &m.authority {
        e.rec(r);
    }
    for r in &m.additional {
        e.rec(r);
    }
    e.out
}

// ------------------------------------------------------------------ decoder

#[derive(Clone, Debug, PartialEq, Eq)]
pub enum DecErr {
    ShortHeader,
    Truncated(&'static str, usize),
    BadLabelType(usize),
    LabelTooLong(usize),
    NameTooLong(usize),
    ForwardPointer(usize),
    PointerLoop(usize),
    RdataOverrun(usize),
    Trailing(usize),
}

#[derive(Clone, Copy, Debug, PartialEq, Eq)]
pub enum Role {
    Question,
    Owner,
    Rdata,
}

#[derive(Clone, Debug, PartialEq, Eq)]
pub struct NameOcc {
    /// offset of the first byte of this occurrence, relative to the message start
    pub at: usize,
    /// bytes occupied in place (labels + terminator or pointer)
    pub wire_len: usize,
    pub labels: Labels,
    /// offsets of the labels written in place (before any pointer)
    pub inline_starts: Vec<usize>,
    /// (offset of the pointer, its 14-bit target) if the in-place part ends in a pointer
    pub pointer: Option<(usize, usize)>,
    pub comp: Comp,
    pub role: Role,
    /// index of the record (0-based over all sections, questions first) this belongs to
    pub entry: usize,
    pub rtype: u16,
}

#[derive(Clone, Debug, PartialEq, Eq)]
pub struct RR {
    pub owner: Labels,
    pub rtype: u16,
    pub class_raw: u16,
    pub ttl: u32,
    pub rdlen: usize,
    pub rdata_at: usize,
    pub rdata_raw: Vec<u8>,
    /// RDATA with embedded names expanded (per `schema`); equals raw when there are none
    pub rdata_canon: Vec<u8>,
    /// false when the per-type schema walk did not fit RDLENGTH exactly
    pub schema_ok: bool,
}

impl RR {
    pub fn class(&self) -> u16 {
        if self.rtype == t::OPT {
            self.class_raw
        } else {
            self.class_raw & 0x7FFF
        }
    }
    pub fn cache_flush(&self) -> bool {
        self.rtype != t::OPT && self.class_raw & 0x8000 != 0
    }
    pub fn key(&self) -> RecKey {
        RecKey {
            owner: self.owner.clone(),
            class: self.class(),
            rtype: self.rtype,
            rdata: self.rdata_canon.clone(),
        }
    }
}

#[derive(Clone, Debug, PartialEq, Eq)]
pub struct Msg {
    pub id: u16,
    pub flags: u16,
    pub counts: [u16; 4],
    pub questions: Vec<Q>,
    pub answers: Vec<RR>,
    pub authority: Vec<RR>,
    pub additional: Vec<RR>,
    pub names: Vec<NameOcc>,
    /// offset just past the last entry
    pub end: usize,
}

impl Msg {
    pub fn is_response(&self) -> bool {
        self.flags & 0x8000 != 0
    }
}

/// Decode one name at `at`. Returns (labels, in-place length, inline label starts, pointer).
#[allow(clippy::type_complexity)]
pub fn decode_name(
    buf: &[u8],
    at: usize,
) -> Result<(Labels, usize, Vec<usize>, Option<(usize, usize)>), DecErr> {
    let mut labels = Vec::new();
    let mut inline_starts = Vec::new();
    let mut pos = at;
    let mut wire_len: Option<usize> = None;
    let mut first_ptr = None;
    let mut total = 1usize;
    let mut jumps = 0;
    loop {
        if pos >= buf.len() {
            return Err(DecErr::Truncated("name", pos));
        }
        let b = buf[pos];
        match b & 0xC0 {
            0x00 => {
                if b == 0 {
                    if wire_len.is_none() {
                        wire_len = Some(pos + 1 - at);
                    }
                    break;
                }
                let l = b as usize;
                if pos + 1 + l > buf.len() {
                    return Err(DecErr::Truncated("label", pos));
                }
                total += l + 1;
                if total > 255 {
                    return Err(DecErr::NameTooLong(at));
                }
                if wire_len.is_none() {
                    inline_starts.push(pos);
                }
                labels.push(buf[pos + 1..pos + 1 + l].to_vec());
                pos += 1 + l;
            }
            0xC0 => {
                if pos + 2 > buf.len() {
                    return Err(DecErr::Truncated("pointer", pos));
                }
                let target = (((b & 0x3F) as usize) << 8) | buf[pos + 1] as usize;
                if wire_len.is_none() {
                    wire_len = Some(pos + 2 - at);
                    first_ptr = Some((pos, target));
                }
                if target >= pos {
                    return Err(DecErr::ForwardPointer(pos));
                }
                jumps += 1;
                if jumps > 127 {
                    return Err(DecErr::PointerLoop(pos));
                }
                pos = target;
            }
            _ => return Err(DecErr::BadLabelType(pos)),
        }
    }
    Ok((labels, wire_len.unwrap(), inline_starts, first_ptr))
}

fn rd_u16(buf: &[u8], at: usize) -> u16 {
    u16::from_be_bytes([buf[at], buf[at + 1]])
}

/// Walk the RDATA according to the type's schema. Returns the canonical RDATA and the name
/// occurrences, or None if the schema does not fit RDLENGTH exactly.
fn walk_rdata(
    buf: &[u8],
    start: usize,
    end: usize,
    rtype: u16,
    entry: usize,
) -> Option<(Vec<u8>, Vec<NameOcc>)> {
    let mut pos = start;
    let mut canon = Vec::new();
    let mut occs = Vec::new();
    let mut take_name = |pos: &mut usize, canon: &mut Vec<u8>, comp: Comp| -> Option<()> {
        let (labels, wl, starts, ptr) = decode_name(&buf[..], *pos).ok()?;
        if *pos + wl > end {
            return None;
        }
        enc_name_plain(canon, &labels);
        occs.push(NameOcc {
            at: *pos,
            wire_len: wl,
            labels,
            inline_starts: starts,
            pointer: ptr,
            comp,
            role: Role::Rdata,
            entry,
            rtype,
        });
        *pos += wl;
        Some(())
    };
    for item in schema(rtype) {
        match *item {
            Item::Skip(n) => {
                if pos + n > end {
                    return None;
                }
                canon.extend_from_slice(&buf[pos..pos + n]);
                pos += n;
            }
            Item::Str => {
                if pos >= end {
                    return None;
                }
                let l = buf[pos] as usize;
                if pos + 1 + l > end {
                    return None;
                }
                canon.extend_from_slice(&buf[pos..pos + 1 + l]);
                pos += 1 + l;
            }
            Item::Name(c) => take_name(&mut pos, &mut canon, c)?,
            Item::IpsecGw => {
                if pos + 3 > end {
                    return None;
                }
                let gw = buf[pos + 1];
                canon.extend_from_slice(&buf[pos..pos + 3]);
                pos += 3;
                match gw {
                    0 => {}
                    1 => {
                        if pos + 4 > end {
                            return None;
                        }
                        canon.extend_from_slice(&buf[pos..pos + 4]);
                        pos += 4;
                    }
                    2 => {
                        if pos + 16 > end {
                            return None;
                        }
                        canon.extend_from_slice(&buf[pos..pos + 16]);
                        pos += 16;
                    }
                    3 => take_name(&mut pos, &mut canon, Comp::Never)?,
                    _ => return None,
                }
            }
            Item::Rest => {
                canon.extend_from_slice(&buf[pos..end]);
                pos = end;
            }
        }
    }
    if pos != end {
        return None;
    }
    Some((canon, occs))
}

/// Decode a whole message. `strict_trailing`: bytes after the last entry are an error.
pub fn decode(buf: &[u8], strict_trailing: bool) -> Result<Msg, DecErr> {
    if buf.len() < 12 {
        return Err(DecErr::ShortHeader);
    }
    let id = rd_u16(buf, 0);
    let flags = rd_u16(buf, 2);
    let counts = [rd_u16(buf, 4), rd_u16(buf, 6), rd_u16(buf, 8), rd_u16(buf, 10)];
    let mut pos = 12;
    let mut names = Vec::new();
    let mut questions = Vec::new();
    let mut entry = 0usize;
    for _ in 0..counts[0] {
        let (labels, wl, starts, ptr) = decode_name(buf, pos)?;
        names.push(NameOcc {
            at: pos,
            wire_len: wl,
            labels: labels.clone(),
            inline_starts: starts,
            pointer: ptr,
            comp: Comp::Must,
            role: Role::Question,
            entry,
            rtype: 0,
        });
        pos += wl;
        if pos + 4 > buf.len() {
            return Err(DecErr::Truncated("question", pos));
        }
        let qtype = rd_u16(buf, pos);
        let qc = rd_u16(buf, pos + 2);
        pos += 4;
        questions.push(Q { name: labels, qtype, qclass: qc & 0x7FFF, unicast: qc & 0x8000 != 0 });
        entry += 1;
    }
    let mut sections: [Vec<RR>; 3] = [Vec::new(), Vec::new(), Vec::new()];
    for (si, sec) in sections.iter_mut().enumerate() {
        for _ in 0..counts[si + 1] {
            let (labels, wl, starts, ptr) = decode_name(buf, pos)?;
            let owner_at = pos;
            pos += wl;
            if pos + 10 > buf.len() {
                return Err(DecErr::Truncated("rr header", pos));
            }
            let rtype = rd_u16(buf, pos);
            let class_raw = rd_u16(buf, pos + 2);
            let ttl = u32::from_be_bytes([buf[pos + 4], buf[pos + 5], buf[pos + 6], buf[pos + 7]]);
            let rdlen = rd_u16(buf, pos + 8) as usize;
            pos += 10;
            if pos + rdlen > buf.len() {
                return Err(DecErr::RdataOverrun(pos));
            }
            names.push(NameOcc {
                at: owner_at,
                wire_len: wl,
                labels: labels.clone(),
                inline_starts: starts,
                pointer: ptr,
                comp: Comp::Must,
                role: Role::Owner,
                entry,
                rtype,
            });
            let raw = buf[pos..pos + rdlen].to_vec();
            let (canon, ok) = match walk_rdata(buf, pos, pos + rdlen, rtype, entry) {
                Some((c, occs)) => {
                    names.extend(occs);
                    (c, true)
                }
                None => (raw.clone(), false),
            };
            sec.push(RR {
                owner: labels,
                rtype,
                class_raw,
                ttl,
                rdlen,
                rdata_at: pos,
                rdata_raw: raw,
                rdata_canon: canon,
                schema_ok: ok,
            });
            pos += rdlen;
            entry += 1;
        }
    }
    if strict_trailing && pos != buf.len() {
        return Err(DecErr::Trailing(pos));
    }
    let [answers, authority, additional] = sections;
    Ok(Msg { id, flags, counts, questions, answers, authority, additional, names, end: pos })
}

// ------------------------------------------------------------------ small helpers for models

/// Does a record of type `rtype` match the question type (RFC 1035 §3.2.3 semantics for the
/// cases the statement defines)? Returns None for AXFR/IXFR/MAILA: not defined by C13.
pub fn qtype_matches(qtype: u16, rtype: u16) -> Option<bool> {
    match qtype {
        t::ANY => Some(true),
        t::AXFR | t::IXFR | t::MAILA => None,
        t::MAILB => Some(rtype == t::MB || rtype == t::MG || rtype == t::MR),
        q => Some(q == rtype),
    }
}

pub fn qclass_matches(qclass: u16, class: u16) -> bool {
    qclass == 255 || qclass == class
}

#[cfg(test)]
mod tests {
    use super::*;

    #[test]
    fn roundtrip_compressed() {
        let n = name_from_str("a._srv._tcp.local");
        let m = MsgSpec {
            id: 7,
            flags: 0x8400,
            questions: vec![Q { name: name_from_str("_srv._tcp.local"), qtype: t::PTR, qclass: 1, unicast: true }],
            answers: vec![
                Rec { owner: n.clone(), rtype: t::SRV, class: 1, cache_flush: true, ttl: 9, fields: vec![F::U16(0), F::U16(0), F::U16(80), F::Name(n.clone(), Comp::Never)] },
                Rec { owner: n.clone(), rtype: t::MX, class: 1, cache_flush: false, ttl: 9, fields: vec![F::U16(5), F::Name(n.clone(), Comp::Must)] },
            ],
            ..Default::default()
        };
        for c in [false, true] {
            let b = encode(&m, c);
            let d = decode(&b, true).unwrap();
            assert_eq!(d.id, 7);
            assert_eq!(d.questions, m.questions);
            assert_eq!(d.answers.len(), 2);
            assert_eq!(d.answers[0].key(), m.answers[0].key());
            assert_eq!(d.answers[1].key(), m.answers[1].key());
            assert!(d.answers[0].cache_flush());
        }
        let b = encode(&m, true);
        let d = decode(&b, true).unwrap();
        // SRV target never compressed, MX exchange is a pure pointer
        let srv = d.names.iter().find(|o| o.role == Role::Rdata && o.rtype == t::SRV).unwrap();
        assert!(srv.pointer.is_none());
        let mx = d.names.iter().find(|o| o.role == Role::Rdata && o.rtype == t::MX).unwrap();
        assert_eq!(mx.wire_len, 2);
    }
}
