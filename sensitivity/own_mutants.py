#!/usr/bin/env python3
"""Sensitivity self-test: deliberate property-breaking edits (must be reported) and
behaviour-changing but property-preserving edits (must stay silent), applied one at a time to
/repo's working tree and reverted. Usage: own_mutants.py [name-substring]"""
import subprocess, sys, json, os, time

R='/repo/'
M=[
 # (name, property, file, old, new, expect_violation)
 ("c04-swallow-flush","C04","simple-dns/src/dns/packet.rs","        out.flush()?;\n        Ok(())\n    }\n\n    /// Write the contents of this package in wire format with enabled compression","        let _ = out.flush();\n        Ok(())\n    }\n\n    /// Write the contents of this package in wire format with enabled compression",True),
 ("c04-opt-counted-twice","C04","simple-dns/src/dns/packet.rs","self.additional_records.len() as u16 + u16::from(self.header.opt.is_some()),","self.additional_records.len() as u16 + 2 * u16::from(self.header.opt.is_some()),",True),
 ("c04-rdlength-backpatch-off","C04","simple-dns/src/dns/resource_record.rs","out.write_all(&((end - len_position - 2) as u16).to_be_bytes())?;","out.write_all(&((end - len_position - 2 + (end % 251 == 0) as u64) as u16).to_be_bytes())?;",True),
 ("c04-silent-vec-capacity","C04","simple-dns/src/dns/packet.rs","let mut out = Cursor::new(Vec::with_capacity(900));\n\n        self.write_to(&mut out)?;","let mut out = Cursor::new(Vec::with_capacity(64));\n\n        self.write_to(&mut out)?;",False),
 ("c07-pointer-after-label","C07","simple-dns/src/dns/name.rs","                    if position <= MAX_POINTER_OFFSET {\n                        e.insert(position);\n                    }","                    if position <= MAX_POINTER_OFFSET {\n                        e.insert(position + (i > 2) as usize);\n                    }",True),
 ("c07-limit-off","C07","simple-dns/src/dns/name.rs","const MAX_POINTER_OFFSET: usize = 0b0011_1111_1111_1111;","const MAX_POINTER_OFFSET: usize = 0b0111_1111_1111_1111;",True),
 ("c07-origin-lost","C07","simple-dns/src/dns/packet.rs","        let origin = out.stream_position()?;\n        let out = &mut MessageStream { inner: out, origin };","        let origin = out.stream_position()? & !1;\n        let out = &mut MessageStream { inner: out, origin };",True),
 ("c13-no-class-filter","C13","simple-mdns/src/lib.rs",".filter(|r| r.match_qclass(question.qclass) && r.match_qtype(question.qtype))",".filter(|r| r.match_qtype(question.qtype))",True),
 ("c13-unicast-last-question","C13","simple-mdns/src/lib.rs","        if question.unicast_response {\n            unicast_response = question.unicast_response\n        }","        unicast_response = question.unicast_response;",True),
 ("c13-additional-any-type","C13","simple-mdns/src/lib.rs","                            (r.match_qtype(TYPE::A.into()) || r.match_qtype(TYPE::AAAA.into()))\n                                && r.match_qclass(question.qclass)","                            r.match_qclass(question.qclass)",True),
 ("c13-silent-dedup-answers","C13","simple-mdns/src/lib.rs","    if !reply_packet.answers.is_empty() {","    reply_packet.answers.reverse();\n    if !reply_packet.answers.is_empty() {",False),
 ("c14-unwrap-parse","C14","simple-mdns/src/sync_discovery/service_discovery.rs","            match Packet::parse(&recv_buffer[..count]) {\n                Ok(packet) => {\n                    if packet.has_flags","            match Packet::parse(&recv_buffer[..count]).map(|p| { if p.answers.len() > 40 { panic!(\"too many\") } p }) {\n                Ok(packet) => {\n                    if packet.has_flags",True),
 ("c14-send-exits-loop","C14","simple-mdns/src/sync_discovery/simple_responder.rs","                            if let Err(err) = sender_socket.send_to(&reply, reply_addr) {\n                                log::error!(\"Failed to send reply {err}\");\n                            }","                            sender_socket.send_to(&reply, reply_addr)?;",True),
 ("c14-peek-unchecked","C14","simple-dns/src/dns/header_buffer.rs","pub fn has_flags(buffer: &[u8], flags: PacketFlag) -> crate::Result<bool> {\n    buffer\n        .get(2..4)\n        .ok_or(crate::SimpleDnsError::InsufficientData)?","pub fn has_flags(buffer: &[u8], flags: PacketFlag) -> crate::Result<bool> {\n    buffer[2..4]",True),
 ("c15-ingest-no-subdomain-test","C15","simple-mdns/src/sync_discovery/service_discovery.rs",".filter(|aw| aw.name.ne(full_name) && aw.name.is_subdomain_of(service_name))",".filter(|aw| aw.name.ne(full_name))",True),
 ("c15-from-records-ignores-aaaa","C15","simple-mdns/src/instance_information.rs","                simple_dns::rdata::RData::AAAA(aaaa) => {\n                    ip_addresses.insert(std::net::Ipv6Addr::from(aaaa.address).into());\n                }","                simple_dns::rdata::RData::AAAA(_) => {}",True),
 ("c15-own-instance-accepted","C15","simple-mdns/src/sync_discovery/service_discovery.rs",".filter(|aw| aw.name.ne(full_name) && aw.name.is_subdomain_of(service_name))",".filter(|aw| aw.name.is_subdomain_of(service_name))",True),
 ("c16-hash-includes-ttl","C16","simple-dns/src/dns/resource_record.rs","        self.name.hash(state);\n        self.class.hash(state);\n        self.rdata.hash(state);","        self.name.hash(state);\n        self.class.hash(state);\n        self.ttl.hash(state);\n        self.rdata.hash(state);",True),
 ("c16-svcb-into-owned-loses-params","C16","simple-dns/src/dns/rdata/svcb.rs","            params: self\n                .params\n                .into_iter()\n                .map(|(k, v)| (k, v.into_owned().into()))\n                .collect(),","            params: self\n                .params\n                .into_iter()\n                .filter(|(k, _)| *k != 3)\n                .map(|(k, v)| (k, v.into_owned().into()))\n                .collect(),",True),
 ("c16-instance-hash-order","C16","simple-mdns/src/instance_information.rs","        let mut ports: Vec<_> = self.ports.iter().collect();\n        ports.sort();\n        ports.hash(state);","        self.ports.iter().for_each(|v| v.hash(state));",True),
 ("c20-flush-ignored","C20","simple-mdns/src/resource_record_manager.rs","        let ttl = if resource.cache_flush {\n            1\n        } else {\n            resource.ttl\n        };","        let ttl = resource.ttl;",True),
 ("c20-refresh-at-in-filter","C20","simple-mdns/src/resource_record_manager.rs","self.cached && exp_info.expire_at > Instant::now()","self.cached && exp_info.refresh_at > Instant::now()",True),
 ("c20-ttl-millis","C20","simple-mdns/src/resource_record_manager.rs","        let expire_at = added + Duration::from_secs(ttl);","        let expire_at = added + Duration::from_millis(ttl * 1000 + (ttl > 1000) as u64 * 999_000);",True),
 ("c14-tokio-send-exits-loop","C14","simple-mdns/src/async_discovery/simple_responder.rs","                            if let Err(err) = sender_socket.send_to(&reply, reply_addr).await {\n                                log::error!(\"Failed to send reply {err}\");\n                            }","                            sender_socket.send_to(&reply, reply_addr).await?;",True),
 ("c15-tokio-ingest-no-subdomain-test","C15","simple-mdns/src/async_discovery/service_discovery.rs",".filter(|aw| aw.name.ne(full_name) && aw.name.is_subdomain_of(service_name))",".filter(|aw| aw.name.ne(full_name))",True),
 ("c13-tokio-reply-to-group-always","C13","simple-mdns/src/async_discovery/service_discovery.rs","                    let reply_addr = if unicast_response {\n                        origin_addr\n                    } else {\n                        self.network_scope.socket_address()\n                    };","                    let reply_addr = if unicast_response && reply.len() % 2 == 0 {\n                        origin_addr\n                    } else {\n                        self.network_scope.socket_address()\n                    };",True),
 ("c20-tokio-silent-refresh-more-often","C20","simple-mdns/src/async_discovery/service_discovery.rs","        Ok(now + Duration::from_secs(5))","        Ok(now + Duration::from_secs(3))",False),
 ("c20-silent-ge-boundary","C20","simple-mdns/src/resource_record_manager.rs","self.cached && exp_info.expire_at > Instant::now()","self.cached && exp_info.expire_at >= Instant::now()",False),
]

def sh(cmd):
    return subprocess.run(cmd, shell=True, capture_output=True, text=True)

def main():
    sel = sys.argv[1] if len(sys.argv)>1 else ''
    results=[]
    assert sh("git -C /repo status --porcelain --untracked-files=no").stdout.strip()=='', "/repo dirty"
    for name,prop,f,old,new,expect in M:
        if sel not in name: continue
        p=R+f
        s=open(p).read()
        if old not in s:
            print(f"{name}: PATTERN NOT FOUND"); results.append((name,prop,'pattern-missing')); continue
        open(p,'w').write(s.replace(old,new,1))
        try:
            t=time.time()
            r=sh(f"cd /verif && ./check {prop} --tier quick")
            out=r.stdout+r.stderr
            sigs=[l.strip() for l in out.splitlines() if 'signature:' in l]
            verdict = 'VIOLATION' if r.returncode==1 else ('clean' if r.returncode==0 else 'HARNESS-ERROR')
            ok = (verdict=='VIOLATION')==expect and verdict!='HARNESS-ERROR'
            print(f"{name:38s} {prop} expect={'violation' if expect else 'silent':9s} got={verdict:13s} {'OK' if ok else 'MISMATCH'} {time.time()-t:.0f}s {sigs[:3]}")
            if verdict=='HARNESS-ERROR': print(out[-800:])
            results.append((name,prop,verdict,ok,sigs))
        finally:
            sh("git -C /repo checkout -- .")
    json.dump(results, open('/verif/sensitivity/own_mutants_last.json','w'), indent=1)

main()
