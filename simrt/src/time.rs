//! Simulated monotonic clock. `Instant::now()` is *not* a scheduling point.

use std::ops::{Add, AddAssign, Sub, SubAssign};
use std::time::Duration;

use crate::sim::ctx;

#[derive(Clone, Copy, Debug, PartialEq, Eq, PartialOrd, Ord, Hash)]
pub struct Instant(pub(crate) u64);

fn dur_ns(d: Duration) -> u64 {
    let n = d.as_nanos();
    if n > u64::MAX as u128 {
        u64::MAX
    } else {
        n as u64
    }
}

impl Instant {
    pub fn now() -> Instant {
        let (sim, tid) = ctx();
        let g = sim.lock();
        let node = g.threads[tid as usize].node;
        Instant(g.local_now(node))
    }
    pub fn as_nanos(&self) -> u64 {
        self.0
    }
    pub fn duration_since(&self, earlier: Instant) -> Duration {
        Duration::from_nanos(self.0.saturating_sub(earlier.0))
    }
    pub fn checked_duration_since(&self, earlier: Instant) -> Option<Duration> {
        self.0.checked_sub(earlier.0).map(Duration::from_nanos)
    }
    pub fn saturating_duration_since(&self, earlier: Instant) -> Duration {
        self.duration_since(earlier)
    }
    pub fn elapsed(&self) -> Duration {
        Instant::now().duration_since(*self)
    }
    pub fn checked_add(&self, d: Duration) -> Option<Instant> {
        let n = d.as_nanos();
        if n > u64::MAX as u128 {
            return None;
        }
        self.0.checked_add(n as u64).map(Instant)
    }
    pub fn checked_sub(&self, d: Duration) -> Option<Instant> {
        let n = d.as_nanos();
        if n > u64::MAX as u128 {
            return None;
        }
        self.0.checked_sub(n as u64).map(Instant)
    }
}

impl Add<Duration> for Instant {
    type Output = Instant;
    fn add(self, d: Duration) -> Instant {
        self.checked_add(d)
            .expect("overflow when adding duration to instant")
    }
}
impl AddAssign<Duration> for Instant {
    fn add_assign(&mut self, d: Duration) {
        *self = *self + d;
    }
}
impl Sub<Duration> for Instant {
    type Output = Instant;
    fn sub(self, d: Duration) -> Instant {
        self.checked_sub(d)
            .expect("overflow when subtracting duration from instant")
    }
}
impl SubAssign<Duration> for Instant {
    fn sub_assign(&mut self, d: Duration) {
        *self = *self - d;
    }
}
impl Sub<Instant> for Instant {
    type Output = Duration;
    fn sub(self, o: Instant) -> Duration {
        self.duration_since(o)
    }
}

pub(crate) fn to_ns(d: Duration) -> u64 {
    dur_ns(d)
}
