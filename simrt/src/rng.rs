//! Small deterministic PRNG (xoshiro256**, seeded through splitmix64). No external crates,
//! no global state, never touched by logging paths.

#[derive(Clone, Debug)]
pub struct Rng {
    s: [u64; 4],
}

pub fn splitmix(x: &mut u64) -> u64 {
    *x = x.wrapping_add(0x9E37_79B9_7F4A_7C15);
    let mut z = *x;
    z = (z ^ (z >> 30)).wrapping_mul(0xBF58_476D_1CE4_E5B9);
    z = (z ^ (z >> 27)).wrapping_mul(0x94D0_49BB_1331_11EB);
    z ^ (z >> 31)
}

/// Mix two words into one (used to derive independent streams).
pub fn mix(a: u64, b: u64) -> u64 {
    let mut x = a ^ b.rotate_left(32) ^ 0xD6E8_FEB8_6659_FD93;
    let r = splitmix(&mut x);
    let mut y = r ^ b;
    splitmix(&mut y)
}

pub fn hash_str(s: &str) -> u64 {
    let mut h = 0xcbf2_9ce4_8422_2325u64;
    for b in s.as_bytes() {
        h ^= *b as u64;
        h = h.wrapping_mul(0x0000_0100_0000_01B3);
    }
    h
}

impl Rng {
    pub fn new(seed: u64) -> Self {
        let mut x = seed;
        let s = [
            splitmix(&mut x),
            splitmix(&mut x),
            splitmix(&mut x),
            splitmix(&mut x),
        ];
        Rng { s }
    }

    /// Independent child stream identified by a label.
    pub fn fork(&self, label: u64) -> Rng {
        Rng::new(mix(self.s[0] ^ self.s[2], label))
    }

    pub fn next_u64(&mut self) -> u64 {
        let result = self.s[1].wrapping_mul(5).rotate_left(7).wrapping_mul(9);
        let t = self.s[1] << 17;
        self.s[2] ^= self.s[0];
        self.s[3] ^= self.s[1];
        self.s[1] ^= self.s[2];
        self.s[0] ^= self.s[3];
        self.s[2] ^= t;
        self.s[3] = self.s[3].rotate_left(45);
        result
    }

    /// Uniform in 0..n (n > 0).
    pub fn below(&mut self, n: u64) -> u64 {
        debug_assert!(n > 0);
        if n <= 1 {
            return 0;
        }
        // multiply-shift; bias is negligible for our n
        ((self.next_u64() as u128 * n as u128) >> 64) as u64
    }

    pub fn usize_below(&mut self, n: usize) -> usize {
        self.below(n as u64) as usize
    }

    /// Uniform in lo..=hi.
    pub fn range(&mut self, lo: u64, hi: u64) -> u64 {
        if hi <= lo {
            return lo;
        }
        lo + self.below(hi - lo + 1)
    }

    /// True with probability ppm / 1_000_000.
    pub fn ppm(&mut self, ppm: u32) -> bool {
        if ppm == 0 {
            return false;
        }
        self.below(1_000_000) < ppm as u64
    }

    /// True with probability num/den.
    pub fn chance(&mut self, num: u64, den: u64) -> bool {
        self.below(den) < num
    }

    pub fn pick<'a, T>(&mut self, xs: &'a [T]) -> &'a T {
        &xs[self.usize_below(xs.len())]
    }

    pub fn shuffle<T>(&mut self, xs: &mut [T]) {
        for i in (1..xs.len()).rev() {
            let j = self.usize_below(i + 1);
            xs.swap(i, j);
        }
    }

    pub fn bytes(&mut self, n: usize) -> Vec<u8> {
        let mut v = Vec::with_capacity(n);
        while v.len() < n {
            let w = self.next_u64().to_le_bytes();
            let take = (n - v.len()).min(8);
            v.extend_from_slice(&w[..take]);
        }
        v
    }
}
