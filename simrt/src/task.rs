//! Async tasks under the simulator: every spawned task is a simulated thread running a tiny
//! `block_on`; leaf futures (sockets, timers, lock admission) register what they wait for and
//! the thread blocks in the scheduler until a waker fires, a datagram arrives or a deadline
//! passes. `shim_tokio` re-targets the name `tokio` of the tokio variants of simple-mdns.

use std::cell::RefCell;
use std::future::Future;
use std::pin::Pin;
use std::sync::Arc;
use std::task::{Context, Poll, Wake, Waker};

use crate::sim::{ctx, Sim, TState};

thread_local! {
    /// what the futures polled in the current `block_on` round are waiting for
    static WAITS: RefCell<(Vec<u32>, Option<u64>)> = const { RefCell::new((Vec::new(), None)) };
}

pub(crate) fn wait_sock(s: u32) {
    WAITS.with(|w| {
        let mut w = w.borrow_mut();
        if !w.0.contains(&s) {
            w.0.push(s);
        }
    });
}

pub(crate) fn wait_deadline(d: u64) {
    WAITS.with(|w| {
        let mut w = w.borrow_mut();
        w.1 = Some(match w.1 {
            Some(x) => x.min(d),
            None => d,
        });
    });
}

struct TaskWaker {
    sim: Arc<Sim>,
    tid: u32,
}

impl Wake for TaskWaker {
    fn wake(self: Arc<Self>) {
        self.wake_by_ref()
    }
    fn wake_by_ref(self: &Arc<Self>) {
        let mut g = self.sim.lock();
        let t = &mut g.threads[self.tid as usize];
        t.notified = true;
        if matches!(t.state, TState::TaskBlocked { .. }) {
            t.state = TState::Runnable;
        }
    }
}

/// Drive a future to completion on the calling simulated thread.
pub fn block_on<F: Future>(fut: F) -> F::Output {
    let (sim, me) = ctx();
    let waker = Waker::from(Arc::new(TaskWaker { sim: sim.clone(), tid: me }));
    let mut cx = Context::from_waker(&waker);
    let mut fut = std::pin::pin!(fut);
    loop {
        WAITS.with(|w| *w.borrow_mut() = (Vec::new(), None));
        sim.lock().threads[me as usize].notified = false;
        if let Poll::Ready(v) = fut.as_mut().poll(&mut cx) {
            return v;
        }
        let (socks, deadline) = WAITS.with(|w| std::mem::take(&mut *w.borrow_mut()));
        let notified = sim.lock().threads[me as usize].notified;
        if notified {
            // woken during the poll: still a scheduling point
            sim.yield_now(me);
        } else {
            sim.switch(me, TState::TaskBlocked { socks, deadline });
        }
    }
}

/// Scheduling point at a synchronisation operation in async code: a yield, or (fault injection)
/// a long preemption of the task.
pub async fn sync_point() {
    let (sim, _) = ctx();
    match sim.draw_preemption() {
        Some(d) => {
            let until = sim.lock().now.saturating_add(d);
            Preempted { until }.await
        }
        None => yield_now().await,
    }
}

struct Preempted {
    until: u64,
}

impl Future for Preempted {
    type Output = ();
    fn poll(self: Pin<&mut Self>, _cx: &mut Context<'_>) -> Poll<()> {
        let (sim, _) = ctx();
        let now = sim.lock().now;
        if now >= self.until {
            Poll::Ready(())
        } else {
            wait_deadline(self.until);
            Poll::Pending
        }
    }
}

/// A future that yields to the scheduler once (a scheduling point inside async code).
pub struct YieldNow(bool);

pub fn yield_now() -> YieldNow {
    YieldNow(false)
}

impl Future for YieldNow {
    type Output = ();
    fn poll(mut self: Pin<&mut Self>, cx: &mut Context<'_>) -> Poll<()> {
        if self.0 {
            Poll::Ready(())
        } else {
            self.0 = true;
            cx.waker().wake_by_ref();
            Poll::Pending
        }
    }
}

/// First branch polled by `select!`, drawn from the run's scheduler PRNG (tokio draws it from a
/// process-global counter, which would make runs depend on what ran before in the process).
pub fn select_start(n: u64) -> u64 {
    let (sim, _) = ctx();
    let mut g = sim.lock();
    g.rng.below(n)
}

/// First branch for `select!`: 0 when `biased;` was written, otherwise drawn from the PRNG.
pub fn select_start_b(biased: bool, n: u64) -> u64 {
    if biased {
        0
    } else {
        select_start(n)
    }
}

pub enum Sel1<A> {
    A(A),
}
pub enum Sel2<A, B> {
    A(A),
    B(B),
}
pub enum Sel3<A, B, C> {
    A(A),
    B(B),
    C(C),
}
pub enum Sel4<A, B, C, D> {
    A(A),
    B(B),
    C(C),
    D(D),
}
pub enum Sel5<A, B, C, D, E> {
    A(A),
    B(B),
    C(C),
    D(D),
    E(E),
}

/// `tokio::select!` for 1 to 5 branches with irrefutable patterns, with or without `biased;`,
/// handlers written as blocks or as expressions followed by a comma: same semantics (all
/// futures created up front, polled from a random branch — branch 0 when biased —, the first
/// ready one wins, the others are dropped; handlers run outside any closure so `?`, `break`
/// and `continue` behave as written). The random start is drawn from the run's scheduler PRNG.
/// Preconditions (`, if ..`) and `else` are not supported.
#[macro_export]
macro_rules! sim_select {
    (biased; $($rest:tt)*) => { $crate::__sim_select_parse!{ @biased true; @acc []; $($rest)* } };
    ($($rest:tt)*) => { $crate::__sim_select_parse!{ @biased false; @acc []; $($rest)* } };
}

#[doc(hidden)]
#[macro_export]
macro_rules! __sim_select_parse {
    (@biased $b:tt; @acc [$($acc:tt)*]; $p:pat = $f:expr => $h:block , $($rest:tt)*) => {
        $crate::__sim_select_parse!{ @biased $b; @acc [$($acc)* ($p, $f, $h)]; $($rest)* }
    };
    (@biased $b:tt; @acc [$($acc:tt)*]; $p:pat = $f:expr => $h:block $($rest:tt)*) => {
        $crate::__sim_select_parse!{ @biased $b; @acc [$($acc)* ($p, $f, $h)]; $($rest)* }
    };
    (@biased $b:tt; @acc [$($acc:tt)*]; $p:pat = $f:expr => $h:expr , $($rest:tt)*) => {
        $crate::__sim_select_parse!{ @biased $b; @acc [$($acc)* ($p, $f, { $h })]; $($rest)* }
    };
    (@biased $b:tt; @acc [$($acc:tt)*]; $p:pat = $f:expr => $h:expr) => {
        $crate::__sim_select_parse!{ @biased $b; @acc [$($acc)* ($p, $f, { $h })]; }
    };
    (@biased $b:tt; @acc [($p0:pat, $f0:expr, $h0:block)]; ) => {{
        let __out = {
            let mut __f0 = ::std::pin::pin!($f0);
            let __start = $crate::task::select_start_b($b, 1);
            ::std::future::poll_fn(|__cx| {
                for __i in 0..1u64 {
                    match (__start + __i) % 1 {
                        _ => {
                            if let ::std::task::Poll::Ready(v) = ::std::future::Future::poll(__f0.as_mut(), __cx) {
                                return ::std::task::Poll::Ready($crate::task::Sel1::A(v));
                            }
                        }
                    }
                }
                ::std::task::Poll::Pending
            })
            .await
        };
        match __out {
            $crate::task::Sel1::A($p0) => $h0,
        }
    }};
    (@biased $b:tt; @acc [($p0:pat, $f0:expr, $h0:block) ($p1:pat, $f1:expr, $h1:block)]; ) => {{
        let __out = {
            let mut __f0 = ::std::pin::pin!($f0);
            let mut __f1 = ::std::pin::pin!($f1);
            let __start = $crate::task::select_start_b($b, 2);
            ::std::future::poll_fn(|__cx| {
                for __i in 0..2u64 {
                    match (__start + __i) % 2 {
                        0 => {
                            if let ::std::task::Poll::Ready(v) = ::std::future::Future::poll(__f0.as_mut(), __cx) {
                                return ::std::task::Poll::Ready($crate::task::Sel2::A(v));
                            }
                        }
                        _ => {
                            if let ::std::task::Poll::Ready(v) = ::std::future::Future::poll(__f1.as_mut(), __cx) {
                                return ::std::task::Poll::Ready($crate::task::Sel2::B(v));
                            }
                        }
                    }
                }
                ::std::task::Poll::Pending
            })
            .await
        };
        match __out {
            $crate::task::Sel2::A($p0) => $h0,
            $crate::task::Sel2::B($p1) => $h1,
        }
    }};
    (@biased $b:tt; @acc [($p0:pat, $f0:expr, $h0:block) ($p1:pat, $f1:expr, $h1:block) ($p2:pat, $f2:expr, $h2:block)]; ) => {{
        let __out = {
            let mut __f0 = ::std::pin::pin!($f0);
            let mut __f1 = ::std::pin::pin!($f1);
            let mut __f2 = ::std::pin::pin!($f2);
            let __start = $crate::task::select_start_b($b, 3);
            ::std::future::poll_fn(|__cx| {
                for __i in 0..3u64 {
                    match (__start + __i) % 3 {
                        0 => {
                            if let ::std::task::Poll::Ready(v) = ::std::future::Future::poll(__f0.as_mut(), __cx) {
                                return ::std::task::Poll::Ready($crate::task::Sel3::A(v));
                            }
                        }
                        1 => {
                            if let ::std::task::Poll::Ready(v) = ::std::future::Future::poll(__f1.as_mut(), __cx) {
                                return ::std::task::Poll::Ready($crate::task::Sel3::B(v));
                            }
                        }
                        _ => {
                            if let ::std::task::Poll::Ready(v) = ::std::future::Future::poll(__f2.as_mut(), __cx) {
                                return ::std::task::Poll::Ready($crate::task::Sel3::C(v));
                            }
                        }
                    }
                }
                ::std::task::Poll::Pending
            })
            .await
        };
        match __out {
            $crate::task::Sel3::A($p0) => $h0,
            $crate::task::Sel3::B($p1) => $h1,
            $crate::task::Sel3::C($p2) => $h2,
        }
    }};
    (@biased $b:tt; @acc [($p0:pat, $f0:expr, $h0:block) ($p1:pat, $f1:expr, $h1:block) ($p2:pat, $f2:expr, $h2:block) ($p3:pat, $f3:expr, $h3:block)]; ) => {{
        let __out = {
            let mut __f0 = ::std::pin::pin!($f0);
            let mut __f1 = ::std::pin::pin!($f1);
            let mut __f2 = ::std::pin::pin!($f2);
            let mut __f3 = ::std::pin::pin!($f3);
            let __start = $crate::task::select_start_b($b, 4);
            ::std::future::poll_fn(|__cx| {
                for __i in 0..4u64 {
                    match (__start + __i) % 4 {
                        0 => {
                            if let ::std::task::Poll::Ready(v) = ::std::future::Future::poll(__f0.as_mut(), __cx) {
                                return ::std::task::Poll::Ready($crate::task::Sel4::A(v));
                            }
                        }
                        1 => {
                            if let ::std::task::Poll::Ready(v) = ::std::future::Future::poll(__f1.as_mut(), __cx) {
                                return ::std::task::Poll::Ready($crate::task::Sel4::B(v));
                            }
                        }
                        2 => {
                            if let ::std::task::Poll::Ready(v) = ::std::future::Future::poll(__f2.as_mut(), __cx) {
                                return ::std::task::Poll::Ready($crate::task::Sel4::C(v));
                            }
                        }
                        _ => {
                            if let ::std::task::Poll::Ready(v) = ::std::future::Future::poll(__f3.as_mut(), __cx) {
                                return ::std::task::Poll::Ready($crate::task::Sel4::D(v));
                            }
                        }
                    }
                }
                ::std::task::Poll::Pending
            })
            .await
        };
        match __out {
            $crate::task::Sel4::A($p0) => $h0,
            $crate::task::Sel4::B($p1) => $h1,
            $crate::task::Sel4::C($p2) => $h2,
            $crate::task::Sel4::D($p3) => $h3,
        }
    }};
    (@biased $b:tt; @acc [($p0:pat, $f0:expr, $h0:block) ($p1:pat, $f1:expr, $h1:block) ($p2:pat, $f2:expr, $h2:block) ($p3:pat, $f3:expr, $h3:block) ($p4:pat, $f4:expr, $h4:block)]; ) => {{
        let __out = {
            let mut __f0 = ::std::pin::pin!($f0);
            let mut __f1 = ::std::pin::pin!($f1);
            let mut __f2 = ::std::pin::pin!($f2);
            let mut __f3 = ::std::pin::pin!($f3);
            let mut __f4 = ::std::pin::pin!($f4);
            let __start = $crate::task::select_start_b($b, 5);
            ::std::future::poll_fn(|__cx| {
                for __i in 0..5u64 {
                    match (__start + __i) % 5 {
                        0 => {
                            if let ::std::task::Poll::Ready(v) = ::std::future::Future::poll(__f0.as_mut(), __cx) {
                                return ::std::task::Poll::Ready($crate::task::Sel5::A(v));
                            }
                        }
                        1 => {
                            if let ::std::task::Poll::Ready(v) = ::std::future::Future::poll(__f1.as_mut(), __cx) {
                                return ::std::task::Poll::Ready($crate::task::Sel5::B(v));
                            }
                        }
                        2 => {
                            if let ::std::task::Poll::Ready(v) = ::std::future::Future::poll(__f2.as_mut(), __cx) {
                                return ::std::task::Poll::Ready($crate::task::Sel5::C(v));
                            }
                        }
                        3 => {
                            if let ::std::task::Poll::Ready(v) = ::std::future::Future::poll(__f3.as_mut(), __cx) {
                                return ::std::task::Poll::Ready($crate::task::Sel5::D(v));
                            }
                        }
                        _ => {
                            if let ::std::task::Poll::Ready(v) = ::std::future::Future::poll(__f4.as_mut(), __cx) {
                                return ::std::task::Poll::Ready($crate::task::Sel5::E(v));
                            }
                        }
                    }
                }
                ::std::task::Poll::Pending
            })
            .await
        };
        match __out {
            $crate::task::Sel5::A($p0) => $h0,
            $crate::task::Sel5::B($p1) => $h1,
            $crate::task::Sel5::C($p2) => $h2,
            $crate::task::Sel5::D($p3) => $h3,
            $crate::task::Sel5::E($p4) => $h4,
        }
    }};
}

pub mod shim_tokio {
    //! `#[cfg(simple_dns_verif)] use simrt::shim_tokio as tokio;`
    pub use crate::sim_select as select;

    /// `tokio::task::JoinHandle`: awaiting it yields the task's output (through a tokio
    /// oneshot channel, which drives the simulated executor's wakers), or a `JoinError` when
    /// the task panicked or was torn down. `abort` is not provided.
    pub struct JoinHandle<T> {
        rx: ::tokio::sync::oneshot::Receiver<T>,
        #[allow(dead_code)]
        thread: crate::thread::JoinHandle<()>,
    }

    #[derive(Debug)]
    pub struct JoinError(());
    impl JoinError {
        pub fn is_panic(&self) -> bool {
            true
        }
        pub fn is_cancelled(&self) -> bool {
            false
        }
    }
    impl std::fmt::Display for JoinError {
        fn fmt(&self, f: &mut std::fmt::Formatter<'_>) -> std::fmt::Result {
            write!(f, "task failed")
        }
    }
    impl std::error::Error for JoinError {}

    impl<T> std::future::Future for JoinHandle<T> {
        type Output = Result<T, JoinError>;
        fn poll(mut self: std::pin::Pin<&mut Self>, cx: &mut std::task::Context<'_>) -> std::task::Poll<Self::Output> {
            std::pin::Pin::new(&mut self.rx).poll(cx).map(|r| r.map_err(|_| JoinError(())))
        }
    }
    impl<T> JoinHandle<T> {
        pub fn is_finished(&self) -> bool {
            self.thread.is_finished()
        }
    }

    pub fn spawn<F>(fut: F) -> JoinHandle<F::Output>
    where
        F: std::future::Future + Send + 'static,
        F::Output: Send + 'static,
    {
        let (tx, rx) = ::tokio::sync::oneshot::channel();
        let thread = crate::thread::spawn(move || {
            let out = super::block_on(fut);
            let _ = tx.send(out);
        });
        JoinHandle { rx, thread }
    }

    pub mod macros {
        pub use ::tokio::macros::*;
    }

    pub mod task {
        pub use super::{spawn, JoinHandle};
        pub use crate::task::yield_now;
    }

    pub mod sync {
        // everything this module does not define itself is tokio's own (runtime-agnostic:
        // Mutex, Notify, oneshot, watch, broadcast, Semaphore, mpsc drive our wakers)
        pub use ::tokio::sync::*;
        use crate::sim::{ctx, EvKind, LockState};
        use std::ops::{Deref, DerefMut};

        /// tokio's RwLock with the simulator's lock trace and scheduling points around it.
        pub struct RwLock<T> {
            id: u32,
            inner: ::tokio::sync::RwLock<T>,
        }

        impl<T: std::fmt::Debug> std::fmt::Debug for RwLock<T> {
            fn fmt(&self, f: &mut std::fmt::Formatter<'_>) -> std::fmt::Result {
                write!(f, "simrt::tokio::RwLock#{}", self.id)
            }
        }

        pub struct RwLockReadGuard<'a, T> {
            g: Option<::tokio::sync::RwLockReadGuard<'a, T>>,
            id: u32,
        }
        pub struct RwLockWriteGuard<'a, T> {
            g: Option<::tokio::sync::RwLockWriteGuard<'a, T>>,
            id: u32,
        }

        fn ev(kind: EvKind) {
            let (sim, me) = ctx();
            let mut g = sim.lock();
            g.ev(me, kind);
        }

        impl<T> RwLock<T> {
            pub fn new(t: T) -> Self {
                let (sim, _) = ctx();
                let mut g = sim.lock();
                g.locks.push(LockState { readers: 0, writer: false });
                RwLock { id: (g.locks.len() - 1) as u32, inner: ::tokio::sync::RwLock::new(t) }
            }
            pub fn sim_id(&self) -> u32 {
                self.id
            }
            pub async fn read(&self) -> RwLockReadGuard<'_, T> {
                crate::task::sync_point().await;
                let g = match self.inner.try_read() {
                    Ok(g) => g,
                    Err(_) => {
                        ev(EvKind::LockBlock { lock: self.id, write: false });
                        self.inner.read().await
                    }
                };
                ev(EvKind::LockAcq { lock: self.id, write: false });
                RwLockReadGuard { g: Some(g), id: self.id }
            }
            pub async fn write(&self) -> RwLockWriteGuard<'_, T> {
                crate::task::sync_point().await;
                let g = match self.inner.try_write() {
                    Ok(g) => g,
                    Err(_) => {
                        ev(EvKind::LockBlock { lock: self.id, write: true });
                        self.inner.write().await
                    }
                };
                ev(EvKind::LockAcq { lock: self.id, write: true });
                RwLockWriteGuard { g: Some(g), id: self.id }
            }
        }
        impl<T> Deref for RwLockReadGuard<'_, T> {
            type Target = T;
            fn deref(&self) -> &T {
                self.g.as_ref().unwrap()
            }
        }
        impl<T> Deref for RwLockWriteGuard<'_, T> {
            type Target = T;
            fn deref(&self) -> &T {
                self.g.as_ref().unwrap()
            }
        }
        impl<T> DerefMut for RwLockWriteGuard<'_, T> {
            fn deref_mut(&mut self) -> &mut T {
                self.g.as_mut().unwrap()
            }
        }
        impl<T> Drop for RwLockReadGuard<'_, T> {
            fn drop(&mut self) {
                self.g.take();
                if crate::sim::in_sim() {
                    ev(EvKind::LockRel { lock: self.id, write: false });
                }
            }
        }
        impl<T> Drop for RwLockWriteGuard<'_, T> {
            fn drop(&mut self) {
                self.g.take();
                if crate::sim::in_sim() {
                    ev(EvKind::LockRel { lock: self.id, write: true });
                }
            }
        }
    }

    pub mod time {
        pub use std::time::Duration;
        use crate::sim::ctx;
        use std::future::Future;
        use std::pin::Pin;
        use std::task::{Context, Poll};

        #[derive(Clone, Copy, Debug, PartialEq, Eq, PartialOrd, Ord, Hash)]
        pub struct Instant(crate::time::Instant);

        impl Instant {
            pub fn now() -> Instant {
                Instant(crate::time::Instant::now())
            }
            pub fn from_std(i: crate::time::Instant) -> Instant {
                Instant(i)
            }
            pub fn into_std(self) -> crate::time::Instant {
                self.0
            }
            pub fn duration_since(&self, earlier: Instant) -> Duration {
                self.0.duration_since(earlier.0)
            }
            pub fn elapsed(&self) -> Duration {
                self.0.elapsed()
            }
            pub fn checked_duration_since(&self, earlier: Instant) -> Option<Duration> {
                self.0.checked_duration_since(earlier.0)
            }
            pub fn saturating_duration_since(&self, earlier: Instant) -> Duration {
                self.0.saturating_duration_since(earlier.0)
            }
            pub fn checked_add(&self, d: Duration) -> Option<Instant> {
                self.0.checked_add(d).map(Instant)
            }
            pub fn checked_sub(&self, d: Duration) -> Option<Instant> {
                self.0.checked_sub(d).map(Instant)
            }
        }
        impl std::ops::AddAssign<Duration> for Instant {
            fn add_assign(&mut self, d: Duration) {
                *self = *self + d;
            }
        }
        impl std::ops::SubAssign<Duration> for Instant {
            fn sub_assign(&mut self, d: Duration) {
                *self = *self - d;
            }
        }
        impl std::ops::Add<Duration> for Instant {
            type Output = Instant;
            fn add(self, d: Duration) -> Instant {
                Instant(self.0 + d)
            }
        }
        impl std::ops::Sub<Duration> for Instant {
            type Output = Instant;
            fn sub(self, d: Duration) -> Instant {
                Instant(self.0 - d)
            }
        }
        impl std::ops::Sub<Instant> for Instant {
            type Output = Duration;
            fn sub(self, o: Instant) -> Duration {
                self.0 - o.0
            }
        }

        /// node-local deadline -> global deadline of the calling thread's node
        fn due(local_deadline: u64) -> Option<u64> {
            let (sim, me) = ctx();
            let g = sim.lock();
            let node = g.threads[me as usize].node;
            let local_now = g.local_now(node);
            if local_now >= local_deadline {
                None
            } else {
                Some(g.now + (local_deadline - local_now))
            }
        }

        pub struct Sleep {
            deadline: u64,
        }
        impl Future for Sleep {
            type Output = ();
            fn poll(self: Pin<&mut Self>, _cx: &mut Context<'_>) -> Poll<()> {
                match due(self.deadline) {
                    None => Poll::Ready(()),
                    Some(global) => {
                        crate::task::wait_deadline(global);
                        Poll::Pending
                    }
                }
            }
        }
        pub fn sleep_until(deadline: Instant) -> Sleep {
            Sleep { deadline: deadline.0.as_nanos() }
        }
        pub fn sleep(d: Duration) -> Sleep {
            sleep_until(Instant::now() + d)
        }

        /// `tokio::time::interval`: the first tick completes at once, the following ones one
        /// period after the previous *scheduled* tick (tokio's default, "burst", behaviour).
        pub struct Interval {
            next: Instant,
            period: Duration,
            missed: MissedTickBehavior,
        }
        impl Interval {
            pub async fn tick(&mut self) -> Instant {
                let at = self.next;
                sleep_until(at).await;
                let now = Instant::now();
                self.next = match self.missed {
                    // the next tick is one period after the *scheduled* one (catching up)
                    MissedTickBehavior::Burst => at + self.period,
                    // one period after this tick actually completed
                    MissedTickBehavior::Delay => now + self.period,
                    // the next multiple of the period that is still ahead
                    MissedTickBehavior::Skip => {
                        let mut n = at + self.period;
                        while n <= now {
                            n = n + self.period;
                        }
                        n
                    }
                };
                at
            }
            pub fn period(&self) -> Duration {
                self.period
            }
            pub fn reset(&mut self) {
                self.next = Instant::now() + self.period;
            }
            pub fn reset_immediately(&mut self) {
                self.next = Instant::now();
            }
            pub fn reset_after(&mut self, after: Duration) {
                self.next = Instant::now() + after;
            }
            pub fn reset_at(&mut self, deadline: Instant) {
                self.next = deadline;
            }
            pub fn missed_tick_behavior(&self) -> MissedTickBehavior {
                self.missed
            }
            pub fn set_missed_tick_behavior(&mut self, b: MissedTickBehavior) {
                self.missed = b;
            }
        }

        #[derive(Clone, Copy, Debug, Default, PartialEq, Eq)]
        pub enum MissedTickBehavior {
            #[default]
            Burst,
            Delay,
            Skip,
        }
        pub fn interval_at(start: Instant, period: Duration) -> Interval {
            assert!(period > Duration::ZERO, "`period` must be non-zero.");
            Interval { next: start, period, missed: MissedTickBehavior::Burst }
        }
        pub fn interval(period: Duration) -> Interval {
            interval_at(Instant::now(), period)
        }

        pub mod error {
            #[derive(Debug, PartialEq, Eq)]
            pub struct Elapsed(pub(crate) ());
            impl std::fmt::Display for Elapsed {
                fn fmt(&self, f: &mut std::fmt::Formatter<'_>) -> std::fmt::Result {
                    write!(f, "deadline has elapsed")
                }
            }
            impl std::error::Error for Elapsed {}
        }

        pub struct Timeout<F> {
            deadline: u64,
            fut: F,
        }
        impl<F: Future> Future for Timeout<F> {
            type Output = Result<F::Output, error::Elapsed>;
            fn poll(self: Pin<&mut Self>, cx: &mut Context<'_>) -> Poll<Self::Output> {
                // structural pinning of `fut`
                let this = unsafe { self.get_unchecked_mut() };
                let fut = unsafe { Pin::new_unchecked(&mut this.fut) };
                if let Poll::Ready(v) = fut.poll(cx) {
                    return Poll::Ready(Ok(v));
                }
                match due(this.deadline) {
                    None => Poll::Ready(Err(error::Elapsed(()))),
                    Some(global) => {
                        crate::task::wait_deadline(global);
                        Poll::Pending
                    }
                }
            }
        }
        pub fn timeout_at<F: Future>(deadline: Instant, fut: F) -> Timeout<F> {
            Timeout { deadline: deadline.0.as_nanos(), fut }
        }
        pub fn timeout<F: Future>(d: Duration, fut: F) -> Timeout<F> {
            timeout_at(Instant::now() + d, fut)
        }
    }

    pub mod net {
        use crate::sim::ctx;
        use std::future::Future;
        use std::io;
        use std::net::{SocketAddr, ToSocketAddrs};
        use std::pin::Pin;
        use std::task::{Context, Poll};

        #[derive(Debug)]
        pub struct UdpSocket {
            s: crate::net::UdpSocket,
        }

        impl UdpSocket {
            pub fn from_std(s: crate::net::UdpSocket) -> io::Result<UdpSocket> {
                Ok(UdpSocket { s })
            }
            pub fn local_addr(&self) -> io::Result<SocketAddr> {
                self.s.local_addr()
            }
            pub async fn send_to<A: ToSocketAddrs>(&self, buf: &[u8], addr: A) -> io::Result<usize> {
                let dst = match addr.to_socket_addrs()?.next() {
                    Some(a) => a,
                    None => return Err(io::Error::new(io::ErrorKind::InvalidInput, "no addresses to send data to")),
                };
                crate::task::yield_now().await;
                let (sim, me) = ctx();
                self.s.send_now(&sim, me, buf, dst)
            }
            pub fn recv_from<'a>(&'a self, buf: &'a mut [u8]) -> RecvFrom<'a> {
                let (sim, me) = ctx();
                self.s.arm(&sim, me);
                RecvFrom { s: &self.s, buf, yielded: false }
            }
        }

        pub struct RecvFrom<'a> {
            s: &'a crate::net::UdpSocket,
            buf: &'a mut [u8],
            yielded: bool,
        }

        impl Future for RecvFrom<'_> {
            type Output = io::Result<(usize, SocketAddr)>;
            fn poll(self: Pin<&mut Self>, cx: &mut Context<'_>) -> Poll<Self::Output> {
                let this = self.get_mut();
                if !this.yielded {
                    // a scheduling point before looking at the queue
                    this.yielded = true;
                    cx.waker().wake_by_ref();
                    crate::task::wait_sock(this.s.sim_id());
                    return Poll::Pending;
                }
                let (sim, me) = ctx();
                match this.s.recv_now(&sim, me, this.buf) {
                    Some(r) => Poll::Ready(r),
                    None => {
                        crate::task::wait_sock(this.s.sim_id());
                        Poll::Pending
                    }
                }
            }
        }
    }
}
