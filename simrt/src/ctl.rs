//! Harness-side control surface of a running simulation (called from simulated threads).

use std::time::Duration;

use crate::sim::{ctx, EvKind, TState, HARNESS_NODE};
use crate::time::to_ns;

/// Global simulated time in ns.
pub fn now_ns() -> u64 {
    let (sim, _) = ctx();
    let g = sim.lock();
    g.now
}

/// Node-local time in ns as seen by `Instant::now()` on that node.
pub fn node_now_ns(node: u32) -> u64 {
    let (sim, _) = ctx();
    let g = sim.lock();
    g.local_now(node)
}

pub fn my_tid() -> u32 {
    ctx().1
}

pub fn my_node() -> u32 {
    let (sim, me) = ctx();
    let g = sim.lock();
    g.threads[me as usize].node
}

/// Run `f` with the calling thread temporarily placed on `node` (threads and sockets created
/// inside belong to that node).
pub fn on_node<R>(node: u32, f: impl FnOnce() -> R) -> R {
    let (sim, me) = ctx();
    let prev = {
        let mut g = sim.lock();
        g.ensure_node(node);
        std::mem::replace(&mut g.threads[me as usize].node, node)
    };
    struct Restore(u32);
    impl Drop for Restore {
        fn drop(&mut self) {
            let (sim, me) = ctx();
            sim.lock().threads[me as usize].node = self.0;
        }
    }
    let _r = Restore(prev);
    f()
}

/// Record a marker in the trace (not a scheduling point). Returns its sequence number.
pub fn mark(text: String) -> u64 {
    let (sim, me) = ctx();
    let mut g = sim.lock();
    let id = g.marks.len() as u32;
    g.marks.push(text);
    g.ev(me, EvKind::Mark { id })
}

/// Label what the current thread is doing (used to attribute panics).
pub fn scope<R>(label: &str, f: impl FnOnce() -> R) -> R {
    let (sim, me) = ctx();
    sim.lock().threads[me as usize].scopes.push(label.to_string());
    struct Pop;
    impl Drop for Pop {
        fn drop(&mut self) {
            if std::thread::panicking() {
                return; // keep the label for the panic record
            }
            let (sim, me) = ctx();
            sim.lock().threads[me as usize].scopes.pop();
        }
    }
    let _p = Pop;
    f()
}

pub fn clear_scopes() {
    let (sim, me) = ctx();
    sim.lock().threads[me as usize].scopes.clear();
}

/// Sleep on the global clock (harness threads).
pub fn sleep(d: Duration) {
    let (sim, me) = ctx();
    let until = {
        let g = sim.lock();
        g.now.saturating_add(to_ns(d))
    };
    sim.switch(me, TState::Sleeping { until });
}

pub fn sleep_until_ns(t: u64) {
    let (sim, me) = ctx();
    let now = sim.lock().now;
    if t > now {
        sim.switch(me, TState::Sleeping { until: t });
    } else {
        sim.yield_now(me);
    }
}

pub fn yield_now() {
    let (sim, me) = ctx();
    sim.yield_now(me);
}

/// Advance the global clock directly (single-threaded store-level histories).
pub fn advance_ns(ns: u64) {
    let (sim, _) = ctx();
    let mut g = sim.lock();
    g.now = g.now.saturating_add(ns);
}

/// Crash a node: every simulated thread of that node is unwound at its current scheduling
/// point, its sockets are closed, nothing survives.
pub fn crash_node(node: u32) {
    let (sim, me) = ctx();
    {
        let mut g = sim.lock();
        assert!(g.threads[me as usize].node != node, "a node cannot crash itself");
        g.ensure_node(node);
        g.nodes[node as usize].alive = false;
        for t in g.threads.iter_mut() {
            if t.node == node && t.state != TState::Finished {
                t.killed = true;
            }
        }
        for s in g.sockets.iter_mut() {
            if s.node == node {
                s.closed = true;
                s.queue.clear();
            }
        }
        g.stats.crashes += 1;
        g.ev(me, EvKind::Fault { what: format!("crash node {}", node) });
    }
    sim.yield_now(me);
}

/// Mark a crashed node as alive again (a fresh service is then constructed on it).
pub fn revive_node(node: u32) {
    let (sim, me) = ctx();
    let mut g = sim.lock();
    g.ensure_node(node);
    g.nodes[node as usize].alive = true;
    g.ev(me, EvKind::Fault { what: format!("revive node {}", node) });
}

/// Forward jump of one node's monotonic clock (suspend/resume, VM pause).
pub fn clock_jump(node: u32, forward: Duration) {
    let (sim, me) = ctx();
    let mut g = sim.lock();
    g.ensure_node(node);
    g.nodes[node as usize].offset_ns = g.nodes[node as usize].offset_ns.saturating_add(to_ns(forward));
    g.stats.clock_jumps += 1;
    g.ev(me, EvKind::Fault { what: format!("clock jump node {} +{}ns", node, to_ns(forward)) });
}

/// Stall a node: none of its threads is scheduled for `d`.
pub fn stall_node(node: u32, d: Duration) {
    let (sim, me) = ctx();
    let mut g = sim.lock();
    g.ensure_node(node);
    let until = g.now.saturating_add(to_ns(d));
    g.nodes[node as usize].stalled_until = until;
    g.stats.stalls += 1;
    g.ev(me, EvKind::Fault { what: format!("stall node {} for {}ns", node, to_ns(d)) });
}

/// Put a node into a partition group (nodes in different groups cannot exchange datagrams).
pub fn set_partition_group(node: u32, group: u32) {
    let (sim, me) = ctx();
    let mut g = sim.lock();
    g.ensure_node(node);
    g.nodes[node as usize].group = group;
    g.ev(me, EvKind::Fault { what: format!("partition node {} -> group {}", node, group) });
}

pub fn heal_partitions() {
    let (sim, me) = ctx();
    let mut g = sim.lock();
    for n in g.nodes.iter_mut() {
        n.group = 0;
    }
    g.ev(me, EvKind::Fault { what: "heal".into() });
}

/// Replace the network fault configuration (e.g. "faults stop now").
pub fn set_net(cfg: crate::sim::NetConfig) {
    let (sim, me) = ctx();
    let mut g = sim.lock();
    g.net = cfg;
    g.ev(me, EvKind::Fault { what: "net config changed".into() });
}

pub fn net() -> crate::sim::NetConfig {
    let (sim, _) = ctx();
    let g = sim.lock();
    g.net.clone()
}

/// Number of trace events so far (== next sequence number).
pub fn seq() -> u64 {
    let (sim, _) = ctx();
    let g = sim.lock();
    g.seq
}

/// Is the thread alive (not finished)?
pub fn thread_alive(tid: u32) -> bool {
    let (sim, _) = ctx();
    let g = sim.lock();
    (tid as usize) < g.threads.len() && g.threads[tid as usize].state != TState::Finished
}

pub fn is_harness_thread() -> bool {
    my_node() == HARNESS_NODE
}

/// Snapshot of how many panics have been recorded so far.
pub fn panic_count() -> usize {
    let (sim, _) = ctx();
    let g = sim.lock();
    g.panics.len()
}

/// Copy of the trace events with sequence number >= `from` (harness-side, in-run oracles).
pub fn events_since(from: u64) -> Vec<crate::sim::Ev> {
    let (sim, _) = ctx();
    let g = sim.lock();
    let start = g.trace.partition_point(|e| e.seq < from);
    g.trace[start..].to_vec()
}

/// Payload and addressing of a datagram (as sent, or a delivered copy).
pub fn dgram(id: u32) -> Option<crate::sim::Dgram> {
    let (sim, _) = ctx();
    let g = sim.lock();
    g.dgrams.get(id as usize).cloned()
}

/// Has any send on this node failed because the simulator injected a syscall error?
pub fn stats() -> crate::sim::Stats {
    let (sim, _) = ctx();
    let g = sim.lock();
    g.stats.clone()
}

/// Innermost `scope` label of another thread (what is it doing?), and whether it has finished.
pub fn thread_scope(tid: u32) -> (Option<String>, bool) {
    let (sim, _) = ctx();
    let g = sim.lock();
    match g.threads.get(tid as usize) {
        Some(t) => (t.scopes.last().cloned(), t.state == TState::Finished),
        None => (None, true),
    }
}
