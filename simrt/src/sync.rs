//! Simulated `std::sync::RwLock`: admission is decided by the simulator (acquire and release
//! are scheduling points, recorded in the trace); the data lives in a *real* `std` lock so
//! that poisoning is exactly std's.

use std::fmt;
use std::mem::ManuallyDrop;
use std::ops::{Deref, DerefMut};
use std::sync::{LockResult, PoisonError};

use crate::sim::{ctx, in_sim, EvKind, LockState, TState};

pub struct RwLock<T> {
    id: u32,
    inner: std::sync::RwLock<T>,
}

impl<T> RwLock<T> {
    pub fn new(t: T) -> Self {
        let id = if in_sim() {
            let (sim, _) = ctx();
            let mut g = sim.lock();
            g.locks.push(LockState { readers: 0, writer: false });
            (g.locks.len() - 1) as u32
        } else {
            u32::MAX
        };
        RwLock { id, inner: std::sync::RwLock::new(t) }
    }

    pub fn sim_id(&self) -> u32 {
        self.id
    }

    fn acquire(&self, write: bool) {
        if self.id == u32::MAX || std::thread::panicking() {
            return;
        }
        let (sim, me) = ctx();
        sim.sync_point(me);
        let mut blocked_once = false;
        loop {
            {
                let mut g = sim.lock();
                let l = &mut g.locks[self.id as usize];
                let free = if write { !l.writer && l.readers == 0 } else { !l.writer };
                if free {
                    if write {
                        l.writer = true;
                    } else {
                        l.readers += 1;
                    }
                    g.ev(me, EvKind::LockAcq { lock: self.id, write });
                    return;
                }
                if !blocked_once {
                    blocked_once = true;
                    g.stats.lock_blocks += 1;
                    g.ev(me, EvKind::LockBlock { lock: self.id, write });
                }
            }
            sim.switch(me, TState::LockBlocked { lock: self.id });
        }
    }

    fn release(&self, write: bool) {
        if self.id == u32::MAX {
            return;
        }
        let (sim, me) = ctx();
        {
            let mut g = sim.lock();
            let l = &mut g.locks[self.id as usize];
            if write {
                l.writer = false;
            } else {
                l.readers = l.readers.saturating_sub(1);
            }
            let id = self.id;
            for t in g.threads.iter_mut() {
                if t.state == (TState::LockBlocked { lock: id }) {
                    t.state = TState::Runnable;
                }
            }
            g.ev(me, EvKind::LockRel { lock: self.id, write });
        }
        if !std::thread::panicking() {
            sim.yield_now(me);
        }
    }

    pub fn read(&self) -> LockResult<RwLockReadGuard<'_, T>> {
        self.acquire(false);
        match self.inner.read() {
            Ok(g) => Ok(RwLockReadGuard { g: ManuallyDrop::new(g), lock: self }),
            Err(p) => Err(PoisonError::new(RwLockReadGuard {
                g: ManuallyDrop::new(p.into_inner()),
                lock: self,
            })),
        }
    }

    pub fn write(&self) -> LockResult<RwLockWriteGuard<'_, T>> {
        self.acquire(true);
        match self.inner.write() {
            Ok(g) => Ok(RwLockWriteGuard { g: ManuallyDrop::new(g), lock: self }),
            Err(p) => Err(PoisonError::new(RwLockWriteGuard {
                g: ManuallyDrop::new(p.into_inner()),
                lock: self,
            })),
        }
    }

    pub fn is_poisoned(&self) -> bool {
        self.inner.is_poisoned()
    }
}

impl<T> fmt::Debug for RwLock<T> {
    fn fmt(&self, f: &mut fmt::Formatter<'_>) -> fmt::Result {
        write!(f, "simrt::RwLock#{}", self.id)
    }
}

pub struct RwLockReadGuard<'a, T> {
    g: ManuallyDrop<std::sync::RwLockReadGuard<'a, T>>,
    lock: &'a RwLock<T>,
}
pub struct RwLockWriteGuard<'a, T> {
    g: ManuallyDrop<std::sync::RwLockWriteGuard<'a, T>>,
    lock: &'a RwLock<T>,
}

impl<T> Deref for RwLockReadGuard<'_, T> {
    type Target = T;
    fn deref(&self) -> &T {
        &self.g
    }
}
impl<T> Deref for RwLockWriteGuard<'_, T> {
    type Target = T;
    fn deref(&self) -> &T {
        &self.g
    }
}
impl<T> DerefMut for RwLockWriteGuard<'_, T> {
    fn deref_mut(&mut self) -> &mut T {
        &mut self.g
    }
}
impl<T> Drop for RwLockReadGuard<'_, T> {
    fn drop(&mut self) {
        unsafe { ManuallyDrop::drop(&mut self.g) };
        self.lock.release(false);
    }
}
impl<T> Drop for RwLockWriteGuard<'_, T> {
    fn drop(&mut self) {
        // std's guard sets the poison flag here if this thread is panicking
        unsafe { ManuallyDrop::drop(&mut self.g) };
        self.lock.release(true);
    }
}

/// Simulated `std::sync::Mutex`, same construction as [`RwLock`]: admission by the simulator
/// (a thread that holds it across a scheduling point makes the others wait *in the simulation*
/// instead of blocking an OS thread that holds the baton), data and poisoning by a real `std`
/// mutex. The repository does not use a mutex today; a changed repository may.
pub struct Mutex<T> {
    gate: RwLock<()>,
    inner: std::sync::Mutex<T>,
}

pub struct MutexGuard<'a, T> {
    g: ManuallyDrop<std::sync::MutexGuard<'a, T>>,
    lock: &'a Mutex<T>,
}

impl<T> Mutex<T> {
    pub fn new(t: T) -> Self {
        Mutex { gate: RwLock::new(()), inner: std::sync::Mutex::new(t) }
    }
    pub fn lock(&self) -> LockResult<MutexGuard<'_, T>> {
        self.gate.acquire(true);
        match self.inner.lock() {
            Ok(g) => Ok(MutexGuard { g: ManuallyDrop::new(g), lock: self }),
            Err(p) => Err(PoisonError::new(MutexGuard { g: ManuallyDrop::new(p.into_inner()), lock: self })),
        }
    }
    pub fn try_lock(&self) -> std::sync::TryLockResult<MutexGuard<'_, T>> {
        if self.gate.id != u32::MAX && !std::thread::panicking() {
            let (sim, me) = ctx();
            sim.sync_point(me);
            let mut g = sim.lock();
            let l = &mut g.locks[self.gate.id as usize];
            if l.writer || l.readers > 0 {
                return Err(std::sync::TryLockError::WouldBlock);
            }
            l.writer = true;
            let id = self.gate.id;
            g.ev(me, EvKind::LockAcq { lock: id, write: true });
        }
        match self.inner.lock() {
            Ok(g) => Ok(MutexGuard { g: ManuallyDrop::new(g), lock: self }),
            Err(p) => Err(std::sync::TryLockError::Poisoned(PoisonError::new(MutexGuard { g: ManuallyDrop::new(p.into_inner()), lock: self }))),
        }
    }
    pub fn is_poisoned(&self) -> bool {
        self.inner.is_poisoned()
    }
    pub fn into_inner(self) -> LockResult<T> {
        self.inner.into_inner()
    }
    pub fn get_mut(&mut self) -> LockResult<&mut T> {
        self.inner.get_mut()
    }
}

impl<T: Default> Default for Mutex<T> {
    fn default() -> Self {
        Mutex::new(T::default())
    }
}
impl<T> From<T> for Mutex<T> {
    fn from(t: T) -> Self {
        Mutex::new(t)
    }
}
impl<T> fmt::Debug for Mutex<T> {
    fn fmt(&self, f: &mut fmt::Formatter<'_>) -> fmt::Result {
        write!(f, "simrt::Mutex#{}", self.gate.id)
    }
}
impl<T> Deref for MutexGuard<'_, T> {
    type Target = T;
    fn deref(&self) -> &T {
        &self.g
    }
}
impl<T> DerefMut for MutexGuard<'_, T> {
    fn deref_mut(&mut self) -> &mut T {
        &mut self.g
    }
}
impl<T> Drop for MutexGuard<'_, T> {
    fn drop(&mut self) {
        unsafe { ManuallyDrop::drop(&mut self.g) };
        self.lock.gate.release(true);
    }
}
