//! Simulated `std::thread::{spawn, sleep}`.

use std::sync::{Arc, Mutex};
use std::time::Duration;

use crate::sim::{ctx, EvKind, TState};
use crate::time::to_ns;

pub struct JoinHandle<T> {
    tid: u32,
    slot: Arc<Mutex<Option<T>>>,
}

impl<T> JoinHandle<T> {
    pub fn join(self) -> std::thread::Result<T> {
        let (sim, me) = ctx();
        loop {
            {
                let g = sim.lock();
                if self.tid == u32::MAX || g.threads[self.tid as usize].state == TState::Finished {
                    break;
                }
            }
            sim.switch(me, TState::JoinBlocked { tid: self.tid });
        }
        match self.slot.lock().unwrap().take() {
            Some(v) => Ok(v),
            None => Err(Box::new("simulated thread did not return a value")),
        }
    }
    pub fn tid(&self) -> u32 {
        self.tid
    }
    pub fn is_finished(&self) -> bool {
        let (sim, _) = ctx();
        let g = sim.lock();
        self.tid == u32::MAX || g.threads[self.tid as usize].state == TState::Finished
    }
}

pub fn spawn<F, T>(f: F) -> JoinHandle<T>
where
    F: FnOnce() -> T + Send + 'static,
    T: Send + 'static,
{
    spawn_named_on(None, None, f)
}

/// Spawn on a given node (harness use); `None` inherits the spawner's node.
pub fn spawn_named_on<F, T>(node: Option<u32>, name: Option<String>, f: F) -> JoinHandle<T>
where
    F: FnOnce() -> T + Send + 'static,
    T: Send + 'static,
{
    let (sim, me) = ctx();
    let (pnode, pname, n) = {
        let g = sim.lock();
        let t = &g.threads[me as usize];
        (t.node, t.name.clone(), g.threads.len())
    };
    let node = node.unwrap_or(pnode);
    let name = name.unwrap_or_else(|| format!("{}/t{}", pname, n));
    let slot: Arc<Mutex<Option<T>>> = Arc::new(Mutex::new(None));
    let s2 = slot.clone();
    let tid = sim.spawn_thread(
        me,
        node,
        name,
        Box::new(move || {
            let v = f();
            *s2.lock().unwrap() = Some(v);
        }),
    );
    // scheduling point: the child may run first
    sim.yield_now(me);
    JoinHandle { tid, slot }
}

pub fn sleep(d: Duration) {
    let (sim, me) = ctx();
    if std::thread::panicking() {
        return;
    }
    let until = {
        let mut g = sim.lock();
        let mut ns = to_ns(d);
        let over = g.net.oversleep_max_ns;
        if over > 0 {
            let extra = g.rng.below(over + 1);
            if extra > 0 {
                g.stats.oversleeps += 1;
            }
            ns = ns.saturating_add(extra);
        }
        g.ev(me, EvKind::Sleep { ns: to_ns(d) });
        g.now.saturating_add(ns)
    };
    sim.switch(me, TState::Sleeping { until });
}

pub fn yield_now() {
    let (sim, me) = ctx();
    sim.yield_now(me);
}
