//! Simulated UDP: a multicast bus plus unicast, with Linux semantics the mDNS code relies on
//! (multicast loops back to the sender's own node, SO_REUSEPORT sharing of 5353, sockets
//! bound to the group address receive group traffic only, short receive buffers truncate,
//! read time-outs yield WouldBlock), and seeded fault injection per delivered copy.

use std::fmt;
use std::io;
use std::net::{IpAddr, Ipv4Addr, Ipv6Addr, SocketAddr, ToSocketAddrs};
use std::sync::{Arc, Weak};
use std::time::Duration;

use crate::rng::{mix, Rng};
use crate::sim::{
    ctx, Dgram, DropReason, EvKind, Inner, PayloadFault, PayloadFaultSpec, RecvErrKind, Sim,
    Sock, TState, HARNESS_NODE,
};
use crate::time::to_ns;

pub const MDNS_PORT: u16 = 5353;
pub const GROUP_V4: Ipv4Addr = Ipv4Addr::new(224, 0, 0, 251);
pub const GROUP_V6: Ipv6Addr = Ipv6Addr::new(0xFF02, 0, 0, 0, 0, 0, 0, 0xFB);
pub const MAX_UDP_PAYLOAD: usize = 65507;

pub fn node_ip(node: u32, v4: bool) -> IpAddr {
    if v4 {
        IpAddr::V4(Ipv4Addr::new(10, 0, (node >> 8) as u8, (node & 0xff) as u8 + 1))
    } else {
        IpAddr::V6(Ipv6Addr::new(0xfd00, 0, 0, 0, 0, 0, 0, node as u16 + 1))
    }
}

pub fn ip_node(ip: &IpAddr) -> Option<u32> {
    match ip {
        IpAddr::V4(a) => {
            let o = a.octets();
            if o[0] == 10 && o[1] == 0 && o[3] >= 1 {
                Some(((o[2] as u32) << 8) | (o[3] as u32 - 1))
            } else {
                None
            }
        }
        IpAddr::V6(a) => {
            let s = a.segments();
            if s[0] == 0xfd00 && s[7] >= 1 {
                Some(s[7] as u32 - 1)
            } else {
                None
            }
        }
    }
}

pub fn group_addr(v4: bool) -> SocketAddr {
    if v4 {
        SocketAddr::new(IpAddr::V4(GROUP_V4), MDNS_PORT)
    } else {
        SocketAddr::new(IpAddr::V6(GROUP_V6), MDNS_PORT)
    }
}

pub(crate) struct SockHandle {
    pub(crate) id: u32,
    sim: Weak<Sim>,
}

impl Drop for SockHandle {
    fn drop(&mut self) {
        if let Some(sim) = self.sim.upgrade() {
            let mut g = sim.lock();
            let s = &mut g.sockets[self.id as usize];
            s.closed = true;
            s.queue.clear();
        }
    }
}

#[derive(Clone)]
pub struct UdpSocket {
    pub(crate) h: Arc<SockHandle>,
}

impl fmt::Debug for UdpSocket {
    fn fmt(&self, f: &mut fmt::Formatter<'_>) -> fmt::Result {
        write!(f, "simrt::UdpSocket#{}", self.h.id)
    }
}

fn new_socket(v4: bool, port: Option<u16>, group_bound: bool, joined: bool) -> io::Result<UdpSocket> {
    let (sim, me) = ctx();
    let mut g = sim.lock();
    let node = g.threads[me as usize].node;
    if node == HARNESS_NODE {
        panic!("simrt: sockets must be created on a node (use ctl::on_node)");
    }
    g.ensure_node(node);
    let id = g.sockets.len() as u32;
    let port = port.unwrap_or(40000 + id as u16);
    g.sockets.push(Sock {
        node,
        v4,
        port,
        group_bound,
        joined,
        queue: Default::default(),
        read_timeout_ns: Some(100_000_000),
        closed: false,
        send_seq: 0,
        recv_seq: 0,
    });
    Ok(UdpSocket {
        h: Arc::new(SockHandle { id, sim: Arc::downgrade(&sim) }),
    })
}

/// Equivalent of `socket_helper::sender_socket`: bound to 0.0.0.0:ephemeral, 100 ms read
/// time-out, not joined to the group.
pub fn sender_socket(v4: bool) -> io::Result<UdpSocket> {
    new_socket(v4, None, false, false)
}

/// Equivalent of `socket_helper::join_multicast` on unix: joined to the group, bound to the
/// group address and port 5353 (so it receives group traffic only), SO_REUSEPORT.
pub fn join_multicast(v4: bool) -> io::Result<UdpSocket> {
    new_socket(v4, Some(MDNS_PORT), true, true)
}

/// Raw peer socket for the harness: bound to 0.0.0.0:`port` (ephemeral if None), optionally
/// joined to the group (then it receives both group traffic to its port and unicast).
pub fn raw_socket(v4: bool, port: Option<u16>, joined: bool) -> io::Result<UdpSocket> {
    new_socket(v4, port, false, joined)
}

fn os_err(code: i32) -> io::Error {
    io::Error::from_raw_os_error(code)
}

fn apply_payload_fault(bytes: &[u8], spec: &PayloadFaultSpec) -> Vec<u8> {
    let mut v = bytes.to_vec();
    match spec {
        PayloadFaultSpec::Truncate(k) => v.truncate((*k).min(bytes.len())),
        PayloadFaultSpec::BitFlip(bit) => {
            if !v.is_empty() {
                let b = bit % (v.len() * 8);
                v[b / 8] ^= 1 << (b % 8);
            }
        }
        PayloadFaultSpec::BytePlus(i) => {
            if !v.is_empty() {
                let i = i % v.len();
                v[i] = v[i].wrapping_add(1);
            }
        }
        PayloadFaultSpec::ByteMinus(i) => {
            if !v.is_empty() {
                let i = i % v.len();
                v[i] = v[i].wrapping_sub(1);
            }
        }
        PayloadFaultSpec::ZeroLength => v.clear(),
        PayloadFaultSpec::Garbage(seed, len) => {
            v = Rng::new(*seed).bytes(*len);
        }
    }
    v
}

fn draw_payload_fault(r: &mut Rng, kinds: u32, len: usize) -> Option<PayloadFaultSpec> {
    let enabled: Vec<u8> = (0..6u8).filter(|k| kinds & (1 << k) != 0).collect();
    if enabled.is_empty() {
        return None;
    }
    let k = *r.pick(&enabled);
    Some(match k {
        x if x == PayloadFault::Truncate as u8 => PayloadFaultSpec::Truncate(r.usize_below(len + 1)),
        x if x == PayloadFault::BitFlip as u8 => PayloadFaultSpec::BitFlip(r.usize_below(len.max(1) * 8)),
        x if x == PayloadFault::BytePlus as u8 => PayloadFaultSpec::BytePlus(r.usize_below(len.max(1))),
        x if x == PayloadFault::ByteMinus as u8 => PayloadFaultSpec::ByteMinus(r.usize_below(len.max(1))),
        x if x == PayloadFault::ZeroLength as u8 => PayloadFaultSpec::ZeroLength,
        _ => {
            let l = if r.chance(1, 4) { r.usize_below(9001) } else { r.usize_below(64) };
            PayloadFaultSpec::Garbage(r.next_u64(), l)
        }
    })
}

fn fault_index(spec: &PayloadFaultSpec) -> usize {
    match spec {
        PayloadFaultSpec::Truncate(_) => 0,
        PayloadFaultSpec::BitFlip(_) => 1,
        PayloadFaultSpec::BytePlus(_) => 2,
        PayloadFaultSpec::ByteMinus(_) => 3,
        PayloadFaultSpec::ZeroLength => 4,
        PayloadFaultSpec::Garbage(..) => 5,
    }
}

/// Compute the receiving sockets of a datagram sent from `src_sock` to `dst`.
fn receivers(g: &Inner, src_sock: u32, dst: &SocketAddr, r: &mut Rng) -> Vec<u32> {
    let s = &g.sockets[src_sock as usize];
    let v4 = s.v4;
    if dst.is_ipv4() != v4 {
        return vec![];
    }
    let is_group = *dst == group_addr(v4) || (dst.ip() == group_addr(v4).ip());
    let mut out = Vec::new();
    if is_group {
        for (i, t) in g.sockets.iter().enumerate() {
            if !t.closed && t.v4 == v4 && t.joined && t.port == dst.port() {
                out.push(i as u32);
            }
        }
    } else if let Some(node) = ip_node(&dst.ip()) {
        // unicast: exactly one socket of the SO_REUSEPORT group bound to 0.0.0.0:port
        let cands: Vec<u32> = g
            .sockets
            .iter()
            .enumerate()
            .filter(|(_, t)| !t.closed && t.v4 == v4 && t.node == node && t.port == dst.port() && !t.group_bound)
            .map(|(i, _)| i as u32)
            .collect();
        if !cands.is_empty() {
            out.push(cands[r.usize_below(cands.len())]);
        }
    }
    out
}

impl UdpSocket {
    pub fn sim_id(&self) -> u32 {
        self.h.id
    }

    pub fn local_addr(&self) -> io::Result<SocketAddr> {
        let (sim, _) = ctx();
        let g = sim.lock();
        let s = &g.sockets[self.h.id as usize];
        Ok(SocketAddr::new(node_ip(s.node, s.v4), s.port))
    }

    pub fn try_clone(&self) -> io::Result<UdpSocket> {
        Ok(self.clone())
    }

    pub fn set_read_timeout(&self, d: Option<Duration>) -> io::Result<()> {
        if let Some(d) = d {
            if d.is_zero() {
                return Err(io::Error::new(io::ErrorKind::InvalidInput, "cannot set a 0 duration timeout"));
            }
        }
        let (sim, _) = ctx();
        let mut g = sim.lock();
        g.sockets[self.h.id as usize].read_timeout_ns = d.map(to_ns);
        Ok(())
    }

    pub fn set_nonblocking(&self, _nb: bool) -> io::Result<()> {
        Ok(())
    }

    pub fn send_to<A: ToSocketAddrs>(&self, buf: &[u8], addr: A) -> io::Result<usize> {
        let dst = match addr.to_socket_addrs()?.next() {
            Some(a) => a,
            None => return Err(io::Error::new(io::ErrorKind::InvalidInput, "no addresses to send data to")),
        };
        let (sim, me) = ctx();
        if std::thread::panicking() {
            return Err(os_err(9));
        }
        sim.yield_now(me);
        self.send_now(&sim, me, buf, dst)
    }

    /// The send itself, without the scheduling point (shared with the async shim).
    pub(crate) fn send_now(&self, sim: &Arc<Sim>, me: u32, buf: &[u8], dst: SocketAddr) -> io::Result<usize> {
        let mut g = sim.lock();
        let sid = self.h.id;
        let (snode, v4, sport, seq) = {
            let s = &mut g.sockets[sid as usize];
            s.send_seq += 1;
            (s.node, s.v4, s.port, s.send_seq)
        };
        let src = SocketAddr::new(node_ip(snode, v4), sport);
        let mut r = Rng::new(mix(sim.cfg.net_seed, mix(sid as u64, seq)));
        let did = g.dgrams.len() as u32;
        g.dgrams.push(Dgram {
            id: did,
            src,
            dst,
            bytes: Arc::new(buf.to_vec()),
            parent: None,
            fault: None,
            dup: false,
            sender_tid: me,
            sender_node: snode,
            send_seq: seq,
        });
        // syscall-level failures
        let err = if dst.port() == 0 {
            Some(22) // EINVAL
        } else if buf.len() > MAX_UDP_PAYLOAD {
            Some(90) // EMSGSIZE
        } else if dst.is_ipv4() != v4 {
            Some(97) // EAFNOSUPPORT
        } else if r.ppm(g.net.send_err_ppm) {
            g.stats.send_errors += 1;
            Some(if r.chance(1, 2) { 105 } else { 101 }) // ENOBUFS / ENETUNREACH
        } else {
            None
        };
        g.ev(me, EvKind::Send { sock: sid, dgram: did, err });
        if let Some(code) = err {
            return Err(os_err(code));
        }
        g.stats.sent += 1;
        let rcv = receivers(&g, sid, &dst, &mut r);
        for rs in rcv {
            let mut rr = r.fork(rs as u64);
            let rnode = g.sockets[rs as usize].node;
            g.ensure_node(rnode);
            if g.nodes[snode as usize].group != g.nodes[rnode as usize].group {
                g.stats.dropped_partition += 1;
                g.ev(me, EvKind::NetDrop { dgram: did, sock: rs, reason: DropReason::Partition });
                continue;
            }
            if rr.ppm(g.net.drop_ppm) {
                g.stats.dropped_loss += 1;
                g.ev(me, EvKind::NetDrop { dgram: did, sock: rs, reason: DropReason::Loss });
                continue;
            }
            let copies = if rr.ppm(g.net.dup_ppm) {
                g.stats.duplicated += 1;
                2
            } else {
                1
            };
            for c in 0..copies {
                g.delivered_copies += 1;
                let nth = g.delivered_copies;
                let mut fault = sim
                    .cfg
                    .scripted_payload
                    .iter()
                    .find(|(n, _)| *n == nth)
                    .map(|(_, f)| f.clone());
                if fault.is_none() && rr.ppm(g.net.corrupt_ppm) {
                    fault = draw_payload_fault(&mut rr, g.net.corrupt_kinds, buf.len());
                }
                let bytes = match &fault {
                    Some(f) => {
                        g.stats.payload_faults[fault_index(f)] += 1;
                        Arc::new(apply_payload_fault(buf, f))
                    }
                    None => g.dgrams[did as usize].bytes.clone(),
                };
                let mut lat = g.net.base_latency_ns + rr.below(g.net.jitter_ns + 1);
                if rr.ppm(g.net.delay_ppm) {
                    g.stats.delayed += 1;
                    lat += rr.below(g.net.delay_max_ns + 1);
                }
                let cid = g.dgrams.len() as u32;
                g.dgrams.push(Dgram {
                    id: cid,
                    src,
                    dst,
                    bytes,
                    parent: Some(did),
                    fault,
                    dup: c > 0,
                    sender_tid: me,
                    sender_node: snode,
                    send_seq: seq,
                });
                let at = g.now + lat;
                g.push_delivery(at, cid, rs);
            }
        }
        Ok(buf.len())
    }

    pub fn recv_from(&self, buf: &mut [u8]) -> io::Result<(usize, SocketAddr)> {
        let (sim, me) = ctx();
        if std::thread::panicking() {
            return Err(os_err(9));
        }
        sim.yield_now(me);
        let sid = self.h.id;
        let deadline = {
            let mut g = sim.lock();
            g.ev(me, EvKind::RecvArm { sock: sid });
            let (seq, to) = {
                let s = &mut g.sockets[sid as usize];
                s.recv_seq += 1;
                (s.recv_seq, s.read_timeout_ns)
            };
            let mut r = Rng::new(mix(sim.cfg.net_seed ^ 0xEC5, mix(sid as u64, seq)));
            if r.ppm(g.net.recv_intr_ppm) {
                g.stats.recv_interrupts += 1;
                g.ev(me, EvKind::RecvErr { sock: sid, kind: RecvErrKind::Interrupted });
                return Err(io::Error::from(io::ErrorKind::Interrupted));
            }
            to.map(|t| g.now.saturating_add(t))
        };
        loop {
            {
                let mut g = sim.lock();
                if g.sockets[sid as usize].closed {
                    g.ev(me, EvKind::RecvErr { sock: sid, kind: RecvErrKind::Closed });
                    return Err(os_err(9)); // EBADF
                }
                if let Some(d) = g.sockets[sid as usize].queue.pop_front() {
                    let (n, src) = {
                        let dg = &g.dgrams[d as usize];
                        let n = dg.bytes.len().min(buf.len());
                        buf[..n].copy_from_slice(&dg.bytes[..n]);
                        (n, dg.src)
                    };
                    g.ev(me, EvKind::Recv { sock: sid, dgram: d, len: n as u32 });
                    return Ok((n, src));
                }
                if let Some(dl) = deadline {
                    if g.now >= dl {
                        g.stats.recv_timeouts += 1;
                        g.ev(me, EvKind::RecvErr { sock: sid, kind: RecvErrKind::Timeout });
                        return Err(io::Error::from(io::ErrorKind::WouldBlock));
                    }
                }
            }
            sim.switch(me, TState::RecvBlocked { sock: sid, deadline });
        }
    }

    /// Non-blocking receive for harness raw peers (not a scheduling point).
    pub fn try_recv_from(&self, buf: &mut [u8]) -> Option<(usize, SocketAddr, u32)> {
        let (sim, me) = ctx();
        let sid = self.h.id;
        let mut g = sim.lock();
        let d = g.sockets[sid as usize].queue.pop_front()?;
        let (n, src) = {
            let dg = &g.dgrams[d as usize];
            let n = dg.bytes.len().min(buf.len());
            buf[..n].copy_from_slice(&dg.bytes[..n]);
            (n, dg.src)
        };
        g.ev(me, EvKind::Recv { sock: sid, dgram: d, len: n as u32 });
        Some((n, src, d))
    }
}

impl UdpSocket {
    /// Non-blocking receive used by the async shim: Some(result) if a datagram (or an error)
    /// is available now.
    pub(crate) fn recv_now(&self, sim: &Arc<Sim>, me: u32, buf: &mut [u8]) -> Option<io::Result<(usize, SocketAddr)>> {
        let sid = self.h.id;
        let mut g = sim.lock();
        if g.sockets[sid as usize].closed {
            g.ev(me, EvKind::RecvErr { sock: sid, kind: RecvErrKind::Closed });
            return Some(Err(os_err(9)));
        }
        let d = g.sockets[sid as usize].queue.pop_front()?;
        let (n, src) = {
            let dg = &g.dgrams[d as usize];
            let n = dg.bytes.len().min(buf.len());
            buf[..n].copy_from_slice(&dg.bytes[..n]);
            (n, dg.src)
        };
        g.ev(me, EvKind::Recv { sock: sid, dgram: d, len: n as u32 });
        Some(Ok((n, src)))
    }

    pub(crate) fn arm(&self, sim: &Arc<Sim>, me: u32) {
        let mut g = sim.lock();
        g.ev(me, EvKind::RecvArm { sock: self.h.id });
    }
}
