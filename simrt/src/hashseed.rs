//! Hash-order seam: std seeds `RandomState` once per OS thread from `getrandom(2)`, looked up
//! through a weak symbol. Defining the symbol in the final binary interposes it, so the
//! iteration order of every `HashMap`/`HashSet` created by simulated threads becomes a
//! function of (`hash_seed`, simulated thread id) — deterministic and explorable.

use crate::rng::{mix, Rng};
use crate::sim::with_ctx;
use std::sync::atomic::{AtomicU64, Ordering};

pub static CALLS: AtomicU64 = AtomicU64::new(0);

/// # Safety
/// Same contract as getrandom(2).
#[no_mangle]
pub unsafe extern "C" fn getrandom(buf: *mut u8, buflen: usize, _flags: u32) -> isize {
    CALLS.fetch_add(1, Ordering::Relaxed);
    let seed = with_ctx(|sim, tid| mix(sim.cfg.hash_seed, 0x4A5E_ED00 ^ tid as u64)).unwrap_or(0x0DDB_A11);
    let bytes = Rng::new(seed).bytes(buflen);
    std::ptr::copy_nonoverlapping(bytes.as_ptr(), buf, buflen);
    buflen as isize
}

/// Force the linker to keep this object (call once from each binary).
pub fn ensure_linked() -> u64 {
    CALLS.load(Ordering::Relaxed)
}
