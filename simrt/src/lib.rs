//! simrt — deterministic simulation runtime for the real `simple-mdns` sync services.
//!
//! Real OS threads, simulated choice: exactly one simulated thread holds the baton; it gives
//! it up only inside a `simrt` call. Clock, sleeping, UDP sockets, RwLock admission, thread
//! spawn and the std hash-seed (`getrandom`) are owned by the simulator and driven by PRNGs
//! seeded from `SimConfig`.

pub mod ctl;
pub mod hashseed;
pub mod net;
pub mod rng;
pub mod sim;
pub mod sync;
pub mod task;
pub mod thread;
pub mod time;

pub use sim::{run, RunResult, SimConfig};
pub use task::shim_tokio;

/// Drop-in replacement for the name `std` inside hooked modules:
/// `#[cfg(simple_dns_verif)] use simrt::shim_std as std;`
pub mod shim_std {
    pub use ::std::*;

    pub mod thread {
        pub use crate::thread::{sleep, spawn, JoinHandle};
        pub use ::std::thread::*;
    }
    pub mod time {
        pub use crate::time::Instant;
        pub use ::std::time::*;
    }
    pub mod net {
        pub use crate::net::UdpSocket;
        pub use ::std::net::*;
    }
    pub mod sync {
        pub use crate::sync::{Mutex, MutexGuard, RwLock, RwLockReadGuard, RwLockWriteGuard};
        pub use ::std::sync::*;
    }
}
