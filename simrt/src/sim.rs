//! The deterministic scheduler: real OS threads, exactly one of which holds the baton.
//! Every choice (who runs next, clock jitter, network delays and faults) is drawn from
//! PRNGs seeded by `SimConfig`; nothing here reads a real clock.

use std::any::Any;
use std::cell::RefCell;
use std::collections::{BinaryHeap, VecDeque};
use std::net::SocketAddr;
use std::panic::{catch_unwind, resume_unwind, AssertUnwindSafe};
use std::sync::{Arc, Condvar, Mutex, MutexGuard};

use crate::rng::{mix, Rng};

pub const HARNESS_NODE: u32 = u32::MAX;

// ---------------------------------------------------------------- configuration

#[derive(Clone, Debug)]
pub struct NetConfig {
    pub base_latency_ns: u64,
    pub jitter_ns: u64,
    pub drop_ppm: u32,
    pub dup_ppm: u32,
    /// probability that a delivered copy gets a payload fault
    pub corrupt_ppm: u32,
    /// enabled payload fault kinds (bit mask over `PayloadFault as u8`)
    pub corrupt_kinds: u32,
    /// extra delay (reordering) probability and magnitude
    pub delay_ppm: u32,
    pub delay_max_ns: u64,
    pub rcvbuf_dgrams: usize,
    pub send_err_ppm: u32,
    pub recv_intr_ppm: u32,
    pub oversleep_max_ns: u64,
    /// a thread is preempted for up to `preempt_max_ns` at a synchronisation point (lock
    /// acquisition) with this probability: long scheduling delays are legal behaviour
    pub preempt_ppm: u32,
    pub preempt_max_ns: u64,
}

impl Default for NetConfig {
    fn default() -> Self {
        NetConfig {
            base_latency_ns: 200_000,
            jitter_ns: 300_000,
            drop_ppm: 0,
            dup_ppm: 0,
            corrupt_ppm: 0,
            corrupt_kinds: 0,
            delay_ppm: 0,
            delay_max_ns: 0,
            rcvbuf_dgrams: 256,
            send_err_ppm: 0,
            recv_intr_ppm: 0,
            oversleep_max_ns: 0,
            preempt_ppm: 0,
            preempt_max_ns: 0,
        }
    }
}

#[derive(Clone, Debug)]
pub struct SimConfig {
    pub sched_seed: u64,
    pub hash_seed: u64,
    pub net_seed: u64,
    pub max_steps: u64,
    pub step_jitter_ns: u64,
    /// watchdog: if the thread holding the baton reaches no scheduling point for this many
    /// milliseconds of REAL time the run is declared spinning (0 = off). The real clock is
    /// read only here and decides nothing else.
    pub spin_limit_ms: u64,
    /// 0 = uniform random choice among runnable threads at every scheduling point;
    /// 1 = sticky (the running thread keeps the baton with probability 7/8);
    /// 2 = PCT-style priorities (highest-priority runnable thread runs; at a few random steps
    ///     the running thread's priority drops below everybody else's)
    pub sched_policy: u8,
    pub net: NetConfig,
    /// scripted payload faults: (n-th datagram copy delivered overall, fault)
    pub scripted_payload: Vec<(u64, PayloadFaultSpec)>,
}

impl Default for SimConfig {
    fn default() -> Self {
        SimConfig {
            sched_seed: 1,
            hash_seed: 1,
            net_seed: 1,
            max_steps: 200_000,
            step_jitter_ns: 20_000,
            spin_limit_ms: 10_000,
            sched_policy: 0,
            net: NetConfig::default(),
            scripted_payload: Vec::new(),
        }
    }
}

#[derive(Clone, Copy, Debug, PartialEq, Eq)]
#[repr(u8)]
pub enum PayloadFault {
    Truncate = 0,
    BitFlip = 1,
    BytePlus = 2,
    ByteMinus = 3,
    ZeroLength = 4,
    Garbage = 5,
}

pub const ALL_PAYLOAD_FAULTS: u32 = 0b11_1111;

#[derive(Clone, Debug, PartialEq, Eq)]
pub enum PayloadFaultSpec {
    Truncate(usize),
    BitFlip(usize),
    BytePlus(usize),
    ByteMinus(usize),
    ZeroLength,
    Garbage(u64, usize),
}

// ---------------------------------------------------------------- trace

#[derive(Clone, Debug, PartialEq, Eq)]
pub struct Ev {
    pub seq: u64,
    /// global simulated time (ns)
    pub t: u64,
    /// node-local time (ns) of the acting thread's node
    pub lt: u64,
    pub tid: u32,
    pub node: u32,
    pub kind: EvKind,
}

#[derive(Clone, Debug, PartialEq, Eq)]
pub enum EvKind {
    Spawn { child: u32 },
    Exit { how: ExitHow },
    Send { sock: u32, dgram: u32, err: Option<i32> },
    Deliver { dgram: u32, sock: u32 },
    NetDrop { dgram: u32, sock: u32, reason: DropReason },
    Recv { sock: u32, dgram: u32, len: u32 },
    RecvErr { sock: u32, kind: RecvErrKind },
    /// the thread (re)arms a receive: whatever it did for the previous datagram is finished
    RecvArm { sock: u32 },
    LockAcq { lock: u32, write: bool },
    LockRel { lock: u32, write: bool },
    LockBlock { lock: u32, write: bool },
    Sleep { ns: u64 },
    Mark { id: u32 },
    Fault { what: String },
}

#[derive(Clone, Copy, Debug, PartialEq, Eq)]
pub enum ExitHow {
    Returned,
    Panicked,
    Killed,
    Shutdown,
}

#[derive(Clone, Copy, Debug, PartialEq, Eq)]
pub enum DropReason {
    Loss,
    Partition,
    Overflow,
    Closed,
}

#[derive(Clone, Copy, Debug, PartialEq, Eq)]
pub enum RecvErrKind {
    Timeout,
    Interrupted,
    Closed,
}

#[derive(Clone, Debug)]
pub struct Dgram {
    pub id: u32,
    pub src: SocketAddr,
    pub dst: SocketAddr,
    pub bytes: Arc<Vec<u8>>,
    /// for delivered copies: the id of the datagram as sent
    pub parent: Option<u32>,
    pub fault: Option<PayloadFaultSpec>,
    pub dup: bool,
    pub sender_tid: u32,
    pub sender_node: u32,
    pub send_seq: u64,
}

#[derive(Clone, Debug)]
pub struct PanicInfo {
    pub tid: u32,
    pub node: u32,
    pub thread_name: String,
    pub message: String,
    pub location: String,
    pub seq: u64,
    /// innermost label pushed with `ctl::scope` on that thread when it panicked
    pub scope: Option<String>,
}

#[derive(Clone, Debug, Default)]
pub struct Stats {
    pub steps: u64,
    pub context_switches: u64,
    pub sent: u64,
    pub delivered: u64,
    pub dropped_loss: u64,
    pub dropped_partition: u64,
    pub dropped_overflow: u64,
    pub dropped_closed: u64,
    pub duplicated: u64,
    pub delayed: u64,
    pub payload_faults: [u64; 6],
    pub send_errors: u64,
    pub recv_interrupts: u64,
    pub recv_timeouts: u64,
    pub oversleeps: u64,
    pub crashes: u64,
    pub clock_jumps: u64,
    pub stalls: u64,
    pub lock_blocks: u64,
    pub preemptions: u64,
    pub threads: u64,
}

#[derive(Clone, Copy, Debug, PartialEq, Eq)]
pub enum Outcome {
    Completed,
    RootPanicked,
    Deadlock,
    StepLimit,
    /// a simulated thread kept the baton without reaching a scheduling point (endless loop in
    /// the code under test); its OS thread is leaked, the process should exit soon
    Spin,
}

pub struct RunResult {
    pub outcome: Outcome,
    pub trace: Vec<Ev>,
    pub dgrams: Vec<Dgram>,
    pub marks: Vec<String>,
    pub panics: Vec<PanicInfo>,
    pub stats: Stats,
    pub end_time_ns: u64,
    pub thread_names: Vec<String>,
    pub thread_nodes: Vec<u32>,
    pub fingerprint: u64,
    pub root_panic: Option<PanicInfo>,
    /// thread that was spinning when the watchdog fired
    pub spin_tid: Option<u32>,
}

// ---------------------------------------------------------------- internal state

#[derive(Clone, Debug, PartialEq, Eq)]
pub(crate) enum TState {
    Running,
    Runnable,
    Sleeping { until: u64 },
    RecvBlocked { sock: u32, deadline: Option<u64> },
    LockBlocked { lock: u32 },
    JoinBlocked { tid: u32 },
    /// an async task whose future returned Pending: runnable again when its waker fires, a
    /// datagram reaches one of `socks`, or `deadline` passes
    TaskBlocked { socks: Vec<u32>, deadline: Option<u64> },
    Finished,
}

pub(crate) struct Parker {
    flag: Mutex<bool>,
    cv: Condvar,
}

impl Parker {
    fn new() -> Self {
        Parker {
            flag: Mutex::new(false),
            cv: Condvar::new(),
        }
    }
    fn park(&self) {
        let mut f = self.flag.lock().unwrap();
        while !*f {
            f = self.cv.wait(f).unwrap();
        }
        *f = false;
    }
    fn unpark(&self) {
        let mut f = self.flag.lock().unwrap();
        *f = true;
        self.cv.notify_one();
    }
}

pub(crate) struct ThreadSlot {
    pub state: TState,
    pub parker: Arc<Parker>,
    pub node: u32,
    pub name: String,
    pub killed: bool,
    pub scopes: Vec<String>,
    /// waker fired since the task last looked
    pub notified: bool,
    /// PCT priority (higher runs first)
    pub prio: u64,
}

pub(crate) struct Sock {
    pub node: u32,
    pub v4: bool,
    pub port: u16,
    /// bound to the multicast group address: receives only group traffic
    pub group_bound: bool,
    pub joined: bool,
    pub queue: VecDeque<u32>,
    pub read_timeout_ns: Option<u64>,
    pub closed: bool,
    pub send_seq: u64,
    pub recv_seq: u64,
}

pub(crate) struct LockState {
    pub readers: u32,
    pub writer: bool,
}

pub(crate) struct NodeState {
    pub offset_ns: u64,
    pub alive: bool,
    pub group: u32,
    pub stalled_until: u64,
}

#[derive(PartialEq, Eq, PartialOrd, Ord)]
struct QEv {
    t: u64,
    seq: u64,
    dgram: u32,
    sock: u32,
}

pub(crate) struct Inner {
    pub rng: Rng,
    pub now: u64,
    pub threads: Vec<ThreadSlot>,
    pub current: u32,
    events: BinaryHeap<std::cmp::Reverse<QEv>>,
    pub qseq: u64,
    pub sockets: Vec<Sock>,
    pub locks: Vec<LockState>,
    pub nodes: Vec<NodeState>,
    pub trace: Vec<Ev>,
    pub seq: u64,
    pub dgrams: Vec<Dgram>,
    pub marks: Vec<String>,
    pub panics: Vec<PanicInfo>,
    pub stats: Stats,
    pub shutdown: bool,
    pub outcome: Outcome,
    pub done: bool,
    pub net: NetConfig,
    pub delivered_copies: u64,
    pub fingerprint: u64,
    pub pct_floor: u64,
    os_handles: Vec<std::thread::JoinHandle<()>>,
    pub root_panic: Option<PanicInfo>,
}

pub struct Sim {
    pub(crate) inner: Mutex<Inner>,
    done_cv: Condvar,
    pub cfg: SimConfig,
}

pub(crate) struct Ctx {
    pub sim: Arc<Sim>,
    pub tid: u32,
}

thread_local! {
    pub(crate) static CTX: RefCell<Option<Ctx>> = const { RefCell::new(None) };
    static LAST_PANIC: RefCell<Option<(String, String)>> = const { RefCell::new(None) };
    static QUIET: std::cell::Cell<u32> = const { std::cell::Cell::new(0) };
}

/// Run `f` with panics on this thread recorded silently (used around calls into the code
/// under test made by oracles outside a simulation).
pub fn quiet_panics<R>(f: impl FnOnce() -> R) -> R {
    QUIET.with(|q| q.set(q.get() + 1));
    struct Guard;
    impl Drop for Guard {
        fn drop(&mut self) {
            QUIET.with(|q| q.set(q.get().saturating_sub(1)));
        }
    }
    let _g = Guard;
    f()
}

/// Payload used to unwind simulated threads at shutdown / node crash. Never a "panic".
pub struct SimAbort;

pub(crate) fn with_ctx<R>(f: impl FnOnce(&Arc<Sim>, u32) -> R) -> Option<R> {
    CTX.with(|c| {
        let b = c.borrow();
        b.as_ref().map(|ctx| f(&ctx.sim, ctx.tid))
    })
}

pub(crate) fn ctx() -> (Arc<Sim>, u32) {
    match with_ctx(|s, t| (s.clone(), t)) {
        Some(x) => x,
        None => panic!("simrt: called outside of a simulation"),
    }
}

pub fn in_sim() -> bool {
    CTX.with(|c| c.borrow().is_some())
}

fn abort_unwind() -> ! {
    resume_unwind(Box::new(SimAbort))
}

/// Install (once per process) a panic hook that records message and location for simulated
/// threads instead of printing; other threads keep the default hook.
pub fn install_panic_hook() {
    static ONCE: std::sync::Once = std::sync::Once::new();
    ONCE.call_once(|| {
        let default = std::panic::take_hook();
        std::panic::set_hook(Box::new(move |info| {
            let msg = if let Some(s) = info.payload().downcast_ref::<&str>() {
                s.to_string()
            } else if let Some(s) = info.payload().downcast_ref::<String>() {
                s.clone()
            } else {
                "<non-string panic payload>".to_string()
            };
            let loc = info
                .location()
                .map(|l| format!("{}:{}:{}", l.file(), l.line(), l.column()))
                .unwrap_or_else(|| "<unknown>".into());
            if in_sim() || QUIET.with(|q| q.get()) > 0 {
                // innermost frame inside the repository under test, for attribution
                let loc = if loc.starts_with("/repo/") {
                    loc
                } else {
                    let bt = std::backtrace::Backtrace::force_capture().to_string();
                    match bt.lines().map(|l| l.trim()).find(|l| l.starts_with("at /repo/")) {
                        Some(l) => format!("{} via {}", loc, l.trim_start_matches("at ")),
                        None => loc,
                    }
                };
                LAST_PANIC.with(|p| *p.borrow_mut() = Some((msg, loc)));
            } else {
                default(info);
            }
        }));
    });
}

impl Inner {
    pub(crate) fn local_now(&self, node: u32) -> u64 {
        if node == HARNESS_NODE {
            self.now
        } else {
            self.now + self.nodes[node as usize].offset_ns
        }
    }

    pub(crate) fn ensure_node(&mut self, node: u32) {
        if node == HARNESS_NODE {
            return;
        }
        while self.nodes.len() <= node as usize {
            self.nodes.push(NodeState {
                offset_ns: 0,
                alive: true,
                group: 0,
                stalled_until: 0,
            });
        }
    }

    pub(crate) fn ev(&mut self, tid: u32, kind: EvKind) -> u64 {
        if self.shutdown {
            // tear-down runs in real parallel; nothing after the end of the run is recorded
            return self.seq;
        }
        let node = self.threads[tid as usize].node;
        let lt = self.local_now(node);
        let seq = self.seq;
        self.seq += 1;
        // schedule fingerprint: who did what, in which order (not payload bytes)
        let tag: u64 = match &kind {
            EvKind::Spawn { child } => 1 | ((*child as u64) << 8),
            EvKind::Exit { .. } => 2,
            EvKind::Send { sock, dgram, .. } => 3 | ((*sock as u64) << 8) | ((*dgram as u64) << 32),
            EvKind::Deliver { dgram, sock } => 4 | ((*sock as u64) << 8) | ((*dgram as u64) << 32),
            EvKind::NetDrop { dgram, sock, .. } => 5 | ((*sock as u64) << 8) | ((*dgram as u64) << 32),
            EvKind::Recv { sock, dgram, .. } => 6 | ((*sock as u64) << 8) | ((*dgram as u64) << 32),
            EvKind::RecvErr { sock, .. } => 7 | ((*sock as u64) << 8),
            EvKind::RecvArm { sock } => 14 | ((*sock as u64) << 8),
            EvKind::LockAcq { lock, write } => 8 | ((*lock as u64) << 8) | ((*write as u64) << 40),
            EvKind::LockRel { lock, write } => 9 | ((*lock as u64) << 8) | ((*write as u64) << 40),
            EvKind::LockBlock { lock, write } => 10 | ((*lock as u64) << 8) | ((*write as u64) << 40),
            EvKind::Sleep { .. } => 11,
            EvKind::Mark { id } => 12 | ((*id as u64) << 8),
            EvKind::Fault { .. } => 13,
        };
        self.fingerprint = mix(self.fingerprint, mix(tid as u64, tag));
        self.trace.push(Ev {
            seq,
            t: self.now,
            lt,
            tid,
            node,
            kind,
        });
        seq
    }

    fn node_stalled(&self, node: u32) -> bool {
        node != HARNESS_NODE
            && (node as usize) < self.nodes.len()
            && self.nodes[node as usize].stalled_until > self.now
    }

    /// Apply all queued network events due at or before `now`.
    fn process_due_events(&mut self) {
        while let Some(std::cmp::Reverse(top)) = self.events.peek() {
            if top.t > self.now {
                break;
            }
            let std::cmp::Reverse(e) = self.events.pop().unwrap();
            self.deliver(e.dgram, e.sock);
        }
    }

    fn deliver(&mut self, dgram: u32, sock: u32) {
        let cur = self.current;
        let s = &self.sockets[sock as usize];
        let dead = s.closed || !self.nodes[s.node as usize].alive;
        if dead {
            self.stats.dropped_closed += 1;
            self.ev(cur, EvKind::NetDrop { dgram, sock, reason: DropReason::Closed });
            return;
        }
        if s.queue.len() >= self.net.rcvbuf_dgrams {
            self.stats.dropped_overflow += 1;
            self.ev(cur, EvKind::NetDrop { dgram, sock, reason: DropReason::Overflow });
            return;
        }
        self.sockets[sock as usize].queue.push_back(dgram);
        self.stats.delivered += 1;
        self.ev(cur, EvKind::Deliver { dgram, sock });
        for t in self.threads.iter_mut() {
            let wake = match &t.state {
                TState::RecvBlocked { sock: s2, .. } => *s2 == sock,
                TState::TaskBlocked { socks, .. } => socks.contains(&sock),
                _ => false,
            };
            if wake {
                t.state = TState::Runnable;
            }
        }
    }

    pub(crate) fn push_delivery(&mut self, at: u64, dgram: u32, sock: u32) {
        let seq = self.qseq;
        self.qseq += 1;
        self.events.push(std::cmp::Reverse(QEv { t: at, seq, dgram, sock }));
    }

    /// Earliest instant at which something can happen while nobody is runnable.
    fn next_wake_time(&self) -> Option<u64> {
        let mut best: Option<u64> = self.events.peek().map(|e| e.0.t);
        let mut upd = |t: u64| {
            best = Some(match best {
                Some(b) => b.min(t),
                None => t,
            })
        };
        for t in &self.threads {
            // a stalled node's threads become eligible only when the stall ends
            let floor = if self.node_stalled(t.node) { self.nodes[t.node as usize].stalled_until } else { 0 };
            match t.state {
                TState::Sleeping { until } => upd(until.max(floor)),
                TState::RecvBlocked { deadline: Some(d), .. } => upd(d.max(floor)),
                TState::TaskBlocked { deadline: Some(d), .. } => upd(d.max(floor)),
                TState::Runnable => {
                    if floor > 0 {
                        upd(floor)
                    }
                }
                _ => {}
            }
        }
        best
    }

    /// Choose the next thread to hold the baton. Advances the clock when nobody can run.
    /// `None` means global deadlock.
    fn pick_next(&mut self, cfg: &SimConfig) -> Option<u32> {
        loop {
            self.stats.steps += 1;
            // killed threads unwind first, in tid order (deterministic)
            if let Some(i) = self
                .threads
                .iter()
                .position(|t| t.killed && t.state != TState::Finished)
            {
                return Some(i as u32);
            }
            self.process_due_events();
            let now = self.now;
            let mut cands: Vec<u32> = Vec::new();
            for (i, t) in self.threads.iter().enumerate() {
                if self.node_stalled(t.node) {
                    continue;
                }
                let ok = match &t.state {
                    TState::Runnable => true,
                    TState::Sleeping { until } => *until <= now,
                    TState::RecvBlocked { deadline: Some(d), .. } => *d <= now,
                    TState::TaskBlocked { deadline, .. } => t.notified || deadline.map(|d| d <= now).unwrap_or(false),
                    _ => false,
                };
                if ok {
                    cands.push(i as u32);
                }
            }
            if !cands.is_empty() {
                let pick = match cfg.sched_policy {
                    1 => {
                        let cur = self.current;
                        if cands.contains(&cur) && self.rng.below(8) != 0 {
                            cur
                        } else {
                            cands[self.rng.usize_below(cands.len())]
                        }
                    }
                    2 => {
                        // a priority change point roughly every 200 steps: the thread that
                        // would run is demoted below everybody else
                        let top = *cands.iter().max_by_key(|t| self.threads[**t as usize].prio).unwrap();
                        if self.rng.below(200) == 0 {
                            self.pct_floor = self.pct_floor.saturating_sub(1);
                            self.threads[top as usize].prio = self.pct_floor;
                            *cands.iter().max_by_key(|t| self.threads[**t as usize].prio).unwrap()
                        } else {
                            top
                        }
                    }
                    _ => cands[self.rng.usize_below(cands.len())],
                };
                if cfg.step_jitter_ns > 0 {
                    self.now += self.rng.below(cfg.step_jitter_ns + 1);
                }
                return Some(pick);
            }
            match self.next_wake_time() {
                Some(t) => {
                    if t > self.now {
                        self.now = t;
                    } else {
                        // nothing became runnable although an event was due: cannot happen by
                        // construction; move time forward rather than spin
                        self.now += 1;
                    }
                }
                None => return None,
            }
        }
    }
}

impl Sim {
    pub(crate) fn lock(&self) -> MutexGuard<'_, Inner> {
        match self.inner.lock() {
            Ok(g) => g,
            Err(p) => p.into_inner(),
        }
    }

    fn fatal(&self, mut g: MutexGuard<'_, Inner>, outcome: Outcome) -> ! {
        if !g.shutdown {
            g.shutdown = true;
            g.outcome = outcome;
        }
        let parkers: Vec<Arc<Parker>> = g
            .threads
            .iter()
            .filter(|t| t.state != TState::Finished)
            .map(|t| t.parker.clone())
            .collect();
        drop(g);
        for p in parkers {
            p.unpark();
        }
        abort_unwind()
    }

    /// The scheduling point. The calling thread (which must hold the baton) records its new
    /// state, the scheduler picks who runs next, and the caller parks until chosen again.
    pub(crate) fn switch(&self, me: u32, new_state: TState) {
        if std::thread::panicking() {
            return;
        }
        let mut g = self.lock();
        if g.shutdown || g.threads[me as usize].killed {
            drop(g);
            abort_unwind();
        }
        if g.stats.steps > self.cfg.max_steps {
            self.fatal(g, Outcome::StepLimit);
        }
        g.threads[me as usize].state = new_state;
        let next = match g.pick_next(&self.cfg) {
            Some(n) => n,
            None => self.fatal(g, Outcome::Deadlock),
        };
        g.current = next;
        g.threads[next as usize].state = TState::Running;
        if next == me {
            return;
        }
        g.stats.context_switches += 1;
        let np = g.threads[next as usize].parker.clone();
        let mp = g.threads[me as usize].parker.clone();
        drop(g);
        np.unpark();
        mp.park();
        let g = self.lock();
        if g.shutdown || g.threads[me as usize].killed {
            drop(g);
            abort_unwind();
        }
    }

    pub(crate) fn yield_now(&self, me: u32) {
        self.switch(me, TState::Runnable);
    }

    /// Scheduling point at a synchronisation operation: usually a plain yield, sometimes (fault
    /// injection) the thread is held back for a long time, as if preempted.
    pub(crate) fn sync_point(&self, me: u32) {
        let until = {
            let mut g = self.lock();
            let ppm = g.net.preempt_ppm;
            if ppm > 0 && g.rng.ppm(ppm) {
                let max = g.net.preempt_max_ns;
                let d = g.rng.below(max + 1);
                g.stats.preemptions += 1;
                Some(g.now.saturating_add(d))
            } else {
                None
            }
        };
        match until {
            Some(t) => self.switch(me, TState::Sleeping { until: t }),
            None => self.switch(me, TState::Runnable),
        }
    }

    /// For the async shim: draw a preemption delay (ns) or None.
    pub(crate) fn draw_preemption(&self) -> Option<u64> {
        let mut g = self.lock();
        let ppm = g.net.preempt_ppm;
        if ppm > 0 && g.rng.ppm(ppm) {
            let max = g.net.preempt_max_ns;
            g.stats.preemptions += 1;
            Some(g.rng.below(max + 1))
        } else {
            None
        }
    }

    /// Spawn a simulated thread running `f` on node `node`.
    pub(crate) fn spawn_thread(
        self: &Arc<Self>,
        parent: u32,
        node: u32,
        name: String,
        f: Box<dyn FnOnce() + Send + 'static>,
    ) -> u32 {
        let mut g = self.lock();
        if g.shutdown {
            drop(g);
            if std::thread::panicking() {
                // cannot unwind twice; the thread simply never runs
                return u32::MAX;
            }
            abort_unwind();
        }
        let tid = g.threads.len() as u32;
        g.ensure_node(node);
        g.threads.push(ThreadSlot {
            state: TState::Runnable,
            parker: Arc::new(Parker::new()),
            node,
            name,
            killed: false,
            scopes: Vec::new(),
            notified: false,
            prio: 0,
        });
        let pr = 1_000 + g.rng.below(1_000_000);
        g.threads[tid as usize].prio = pr;
        g.stats.threads += 1;
        g.ev(parent, EvKind::Spawn { child: tid });
        let sim = self.clone();
        let h = std::thread::Builder::new()
            .stack_size(1 << 20)
            .spawn(move || thread_main(sim, tid, f))
            .expect("simrt: OS thread spawn failed");
        g.os_handles.push(h);
        drop(g);
        tid
    }

    fn thread_exit(&self, tid: u32, result: Result<(), Box<dyn Any + Send>>) {
        let mut g = self.lock();
        let how = match &result {
            Ok(()) => ExitHow::Returned,
            Err(p) if p.is::<SimAbort>() => {
                if g.threads[tid as usize].killed {
                    ExitHow::Killed
                } else {
                    ExitHow::Shutdown
                }
            }
            Err(_) => ExitHow::Panicked,
        };
        if how == ExitHow::Panicked {
            let (message, location) = LAST_PANIC
                .with(|p| p.borrow_mut().take())
                .unwrap_or_else(|| ("<unknown>".into(), "<unknown>".into()));
            let info = PanicInfo {
                tid,
                node: g.threads[tid as usize].node,
                thread_name: g.threads[tid as usize].name.clone(),
                message,
                location,
                seq: g.seq,
                scope: g.threads[tid as usize].scopes.last().cloned(),
            };
            if tid == 0 {
                g.root_panic = Some(info);
            } else {
                g.panics.push(info);
            }
        }
        g.ev(tid, EvKind::Exit { how });
        g.threads[tid as usize].state = TState::Finished;
        for t in g.threads.iter_mut() {
            if t.state == (TState::JoinBlocked { tid }) {
                t.state = TState::Runnable;
            }
        }
        if tid == 0 {
            if !g.shutdown {
                g.shutdown = true;
                g.outcome = if how == ExitHow::Panicked {
                    Outcome::RootPanicked
                } else {
                    Outcome::Completed
                };
            }
            let parkers: Vec<Arc<Parker>> = g
                .threads
                .iter()
                .filter(|t| t.state != TState::Finished)
                .map(|t| t.parker.clone())
                .collect();
            g.done = true;
            drop(g);
            for p in parkers {
                p.unpark();
            }
            self.done_cv.notify_all();
            return;
        }
        if g.shutdown {
            return;
        }
        // hand the baton on
        match g.pick_next(&self.cfg) {
            Some(next) => {
                g.current = next;
                g.threads[next as usize].state = TState::Running;
                g.stats.context_switches += 1;
                let np = g.threads[next as usize].parker.clone();
                drop(g);
                np.unpark();
            }
            None => {
                g.shutdown = true;
                g.outcome = Outcome::Deadlock;
                let parkers: Vec<Arc<Parker>> = g
                    .threads
                    .iter()
                    .filter(|t| t.state != TState::Finished)
                    .map(|t| t.parker.clone())
                    .collect();
                drop(g);
                for p in parkers {
                    p.unpark();
                }
            }
        }
    }
}

fn thread_main(sim: Arc<Sim>, tid: u32, f: Box<dyn FnOnce() + Send + 'static>) {
    CTX.with(|c| {
        *c.borrow_mut() = Some(Ctx {
            sim: sim.clone(),
            tid,
        })
    });
    let parker = sim.lock().threads[tid as usize].parker.clone();
    if tid != 0 {
        parker.park();
    }
    let proceed = {
        let g = sim.lock();
        !(g.shutdown || g.threads[tid as usize].killed)
    };
    let result = if proceed {
        catch_unwind(AssertUnwindSafe(f))
    } else {
        drop(f);
        Err(Box::new(SimAbort) as Box<dyn Any + Send>)
    };
    sim.thread_exit(tid, result);
    CTX.with(|c| *c.borrow_mut() = None);
}

/// Run one simulation to completion: `root` is simulated thread 0 on the harness node.
pub fn run<F: FnOnce() + Send + 'static>(cfg: SimConfig, root: F) -> RunResult {
    install_panic_hook();
    let sim = Arc::new(Sim {
        inner: Mutex::new(Inner {
            rng: Rng::new(mix(cfg.sched_seed, 0x5C4E_D000)),
            now: 0,
            threads: vec![ThreadSlot {
                state: TState::Running,
                parker: Arc::new(Parker::new()),
                node: HARNESS_NODE,
                name: "root".into(),
                killed: false,
                scopes: Vec::new(),
                notified: false,
                prio: 500_000,
            }],
            current: 0,
            events: BinaryHeap::new(),
            qseq: 0,
            sockets: Vec::new(),
            locks: Vec::new(),
            nodes: Vec::new(),
            trace: Vec::new(),
            seq: 0,
            dgrams: Vec::new(),
            marks: Vec::new(),
            panics: Vec::new(),
            stats: Stats::default(),
            shutdown: false,
            outcome: Outcome::Completed,
            done: false,
            net: cfg.net.clone(),
            delivered_copies: 0,
            fingerprint: 0,
            pct_floor: 900,
            os_handles: Vec::new(),
            root_panic: None,
        }),
        done_cv: Condvar::new(),
        cfg,
    });
    sim.lock().stats.threads = 1;
    let s2 = sim.clone();
    let root_handle = std::thread::Builder::new()
        .stack_size(4 << 20)
        .spawn(move || thread_main(s2, 0, Box::new(root)))
        .expect("simrt: root thread spawn failed");
    let mut spun: Option<u32> = None;
    {
        let mut g = sim.lock();
        let mut last_steps = g.stats.steps;
        let mut last_change = std::time::Instant::now();
        while !g.done {
            let (g2, _) = match sim.done_cv.wait_timeout(g, std::time::Duration::from_millis(250)) {
                Ok(x) => x,
                Err(p) => p.into_inner(),
            };
            g = g2;
            if g.done || sim.cfg.spin_limit_ms == 0 {
                continue;
            }
            if g.stats.steps != last_steps {
                last_steps = g.stats.steps;
                last_change = std::time::Instant::now();
            } else if last_change.elapsed().as_millis() as u64 > sim.cfg.spin_limit_ms {
                spun = Some(g.current);
                g.outcome = Outcome::Spin;
                g.shutdown = true;
                break;
            }
        }
    }
    if spun.is_none() {
        let _ = root_handle.join();
        // join every simulated OS thread (they unwind with SimAbort)
        loop {
            let hs: Vec<_> = std::mem::take(&mut sim.lock().os_handles);
            if hs.is_empty() {
                break;
            }
            for h in hs {
                let _ = h.join();
            }
        }
    }
    let mut g = sim.lock();
    RunResult {
        outcome: g.outcome,
        trace: std::mem::take(&mut g.trace),
        dgrams: std::mem::take(&mut g.dgrams),
        marks: std::mem::take(&mut g.marks),
        panics: std::mem::take(&mut g.panics),
        stats: g.stats.clone(),
        end_time_ns: g.now,
        thread_names: g.threads.iter().map(|t| t.name.clone()).collect(),
        thread_nodes: g.threads.iter().map(|t| t.node).collect(),
        fingerprint: g.fingerprint,
        root_panic: g.root_panic.take(),
        spin_tid: spun,
    }
}

/// (message, location) of the last panic seen by the hook on this thread, if any.
pub fn take_last_panic() -> Option<(String, String)> {
    LAST_PANIC.with(|p| p.borrow_mut().take())
}
