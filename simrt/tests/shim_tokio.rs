//! Self-test of the parts of the tokio shim the repository does not use today (so that a
//! changed repository that starts to use them still builds and behaves under the simulator).
use simrt::shim_tokio as tokio;
use simrt::sim::{run, Outcome, SimConfig};
use std::sync::{Arc, Mutex};
use tokio::time::{Duration, Instant};

fn sim<F: FnOnce() + Send + 'static>(f: F) {
    let r = run(SimConfig { step_jitter_ns: 0, ..SimConfig::default() }, f);
    assert!(matches!(r.outcome, Outcome::Completed), "outcome {:?}", r.outcome);
    assert!(r.root_panic.is_none(), "root panicked: {:?}", r.root_panic);
}

#[test]
fn interval_ticks_on_the_virtual_clock() {
    sim(|| {
        simrt::ctl::on_node(0, || {
            simrt::task::block_on(async {
                let t0 = Instant::now();
                let mut iv = tokio::time::interval(Duration::from_secs(5));
                iv.tick().await;
                assert!(t0.elapsed() < Duration::from_millis(1));
                iv.tick().await;
                iv.tick().await;
                let e = t0.elapsed();
                assert!(e >= Duration::from_secs(10) && e < Duration::from_millis(10_001), "{:?}", e);
            })
        })
    });
}

#[test]
fn select_with_one_four_and_five_branches_and_biased() {
    sim(|| {
        simrt::ctl::on_node(0, || {
            simrt::task::block_on(async {
                let hits = Arc::new(Mutex::new(Vec::new()));
                let h = hits.clone();
                tokio::select! {
                    _ = tokio::time::sleep(Duration::from_secs(1)) => { h.lock().unwrap().push(1); }
                }
                tokio::select! {
                    _ = tokio::time::sleep(Duration::from_secs(9)) => { h.lock().unwrap().push(40); }
                    _ = tokio::time::sleep(Duration::from_secs(3)) => { h.lock().unwrap().push(41); }
                    _ = tokio::time::sleep(Duration::from_secs(7)) => { h.lock().unwrap().push(42); }
                    _ = tokio::time::sleep(Duration::from_secs(8)) => { h.lock().unwrap().push(43); }
                }
                tokio::select! {
                    biased;
                    _ = std::future::ready(()) => { h.lock().unwrap().push(50); }
                    _ = std::future::ready(()) => { h.lock().unwrap().push(51); }
                    _ = std::future::ready(()) => { h.lock().unwrap().push(52); }
                    _ = std::future::ready(()) => { h.lock().unwrap().push(53); }
                    _ = std::future::ready(()) => { h.lock().unwrap().push(54); }
                }
                assert_eq!(*hits.lock().unwrap(), vec![1, 41, 50]);
            })
        })
    });
}

#[test]
fn tokio_mutex_and_notify_wake_simulated_tasks() {
    sim(|| {
        simrt::ctl::on_node(0, || {
            let m = Arc::new(tokio::sync::Mutex::new(0u32));
            let n = Arc::new(tokio::sync::Notify::new());
            let (m2, n2) = (m.clone(), n.clone());
            let _t = tokio::spawn(async move {
                let mut g = m2.lock().await;
                tokio::time::sleep(Duration::from_secs(2)).await; // held across an await
                *g += 1;
                drop(g);
                n2.notify_one();
            });
            simrt::task::block_on(async {
                tokio::time::sleep(Duration::from_millis(10)).await;
                let t0 = Instant::now();
                n.notified().await;
                let g = m.lock().await;
                assert_eq!(*g, 1);
                assert!(t0.elapsed() >= Duration::from_millis(1900));
            })
        })
    });
}

#[test]
fn join_handle_can_be_awaited_and_interval_delay_behaviour() {
    sim(|| {
        simrt::ctl::on_node(0, || {
            simrt::task::block_on(async {
                let h = tokio::spawn(async {
                    tokio::time::sleep(Duration::from_secs(2)).await;
                    41 + 1
                });
                let t0 = Instant::now();
                assert_eq!(h.await.unwrap(), 42);
                assert!(t0.elapsed() >= Duration::from_millis(1990));
                let mut iv = tokio::time::interval_at(Instant::now() + Duration::from_secs(1), Duration::from_secs(1));
                iv.set_missed_tick_behavior(tokio::time::MissedTickBehavior::Delay);
                iv.tick().await;
                tokio::time::sleep(Duration::from_millis(3500)).await; // miss three ticks
                let a = Instant::now();
                iv.tick().await; // overdue: completes at once
                assert!(a.elapsed() < Duration::from_millis(1));
                iv.tick().await; // Delay: one full period after the late tick
                assert!(a.elapsed() >= Duration::from_millis(999));
                iv.reset_at(Instant::now() + Duration::from_secs(7));
                let b = Instant::now();
                iv.tick().await;
                assert!(b.elapsed() >= Duration::from_millis(6999));
            })
        })
    });
}

#[test]
fn select_with_expression_handlers() {
    sim(|| {
        simrt::ctl::on_node(0, || {
            simrt::task::block_on(async {
                let r: Result<u32, ()> = async {
                    let v = tokio::select! {
                        x = async { Ok::<u32, ()>(7) } => x?,
                        _ = tokio::time::sleep(Duration::from_secs(1)) => 0,
                    };
                    let w = tokio::select! {
                        _ = tokio::time::sleep(Duration::from_secs(1)) => { 1 }
                        _ = tokio::time::sleep(Duration::from_secs(2)) => 2
                    };
                    Ok(v + w)
                }
                .await;
                assert_eq!(r, Ok(8));
            })
        })
    });
}
