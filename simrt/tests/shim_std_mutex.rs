//! The simulated `std::sync::Mutex`: a thread that holds it across a scheduling point makes the
//! other wait in simulated time (a real mutex would block the OS thread that holds the baton).
use simrt::shim_std as sstd;
use simrt::sim::{run, Outcome, SimConfig};
use sstd::sync::{Arc, Mutex};
use sstd::time::{Duration, Instant};

#[test]
fn mutex_held_across_a_sleep_blocks_in_simulated_time() {
    let r = run(SimConfig { step_jitter_ns: 0, ..SimConfig::default() }, || {
        simrt::ctl::on_node(0, || {
            let m = Arc::new(Mutex::new(0u32));
            let m2 = m.clone();
            let t = sstd::thread::spawn(move || {
                let mut g = m2.lock().unwrap();
                sstd::thread::sleep(Duration::from_secs(3)); // scheduling point while holding it
                *g += 1;
            });
            sstd::thread::sleep(Duration::from_millis(10));
            let t0 = Instant::now();
            assert!(m.try_lock().is_err());
            let g = m.lock().unwrap();
            assert_eq!(*g, 1);
            assert!(t0.elapsed() >= Duration::from_millis(2900), "{:?}", t0.elapsed());
            drop(g);
            t.join().unwrap();
            assert_eq!(*m.try_lock().unwrap(), 1);
        })
    });
    assert!(matches!(r.outcome, Outcome::Completed), "{:?}", r.outcome);
    assert!(r.root_panic.is_none(), "{:?}", r.root_panic);
}
